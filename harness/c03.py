"""C03 - pair-setup returns pairing data only after a fully authenticated exchange.
Real code: protocol/__init__.py perform_pair_setup_part1 / perform_pair_setup_part2, handle_state_step, TLV codec."""
import aiohomekit.protocol as real_proto
import aiohomekit.protocol.tlv as real_tlv

from symx import Unit, as_rope, check_property, decide, load, rope_eq, run_canaries, slen
from symx.ideal import World
from symx.rope import HexOf

from . import common, hap
from .c01 import T_ENC, T_ID, T_METHOD, T_PROOF, T_PUBKEY, T_SALT, T_SIG, T_STATE, eq, send
from .refs import tlv8_encode

PROP = "C03"
TLVM, PROTO = "aiohomekit.protocol.tlv", "aiohomekit.protocol"
CODE = "111-22-333"


class Mods:
    pass


def copies(mutate=None):
    mutate = mutate or {}
    m = Mods()
    m.tlv = load(TLVM, src_transform=mutate.get(TLVM))
    common.keep_tlv_to_string(m.tlv)
    m.proto = hap.patch_protocol_copy(load(PROTO, deps={TLVM: m.tlv}, src_transform=mutate.get(PROTO)))
    return m


def reals():
    m = Mods()
    m.tlv, m.proto = real_tlv, real_proto
    return m


def part1(M):
    """M2 must carry salt and public key"""
    def h(ex):
        be = hap.backend(ex, M.proto)
        gen = M.proto.perform_pair_setup_part1()
        req, expected = gen.send(None)
        r = dict(req)
        ex.require(eq(be, r[T_STATE], b"\x01") and T_METHOD in r, "M1 carries state 1 and the pairing method")
        srv = be.srp_server(CODE)
        has_salt, has_pk = ex.fresh_bool("has_salt"), ex.fresh_bool("has_pk")
        fields = [(T_STATE, b"\x02")] + ([(T_SALT, srv.salt)] if has_salt else []) + ([(T_PUBKEY, srv.B)] if has_pk else [])
        try:
            send(M, be, gen, fields, expected)
            ex.require(False, "part 1 ends after M2")
            return ex.observe("yielded")
        except StopIteration as s:
            ex.tag("returned")
            ex.require(has_salt and has_pk, "part 1 returns only if M2 carries salt and public key")
            salt, B = s.value
            ex.require(eq(be, salt, srv.salt) and eq(be, B, srv.B), "part 1 returns exactly the accessory's salt and public key")
            return ex.observe("returned")
        except Exception as e:
            ex.tag("rejected")
            ex.require(not (has_salt and has_pk), "a complete M2 is accepted")
            return ex.observe("rejected")
    return h


PROOFS = ["right", "wrong-code", "arbitrary", "short", "front-truncated", "empty", "absent", "absent-but-encrypted-data"]
ACC_IDS = [hap.ACC_ID.encode(), b"7c:2a:91:0b:e4:5d", b"bridge-0001"]
M6S = ["honest", "honest-but-empty-state", "honest-with-an-undefined-error-code", "absent", "arbitrary", "truncated", "wrong-key-label", "wrong-nonce", "inner", "fields-outside-envelope"]
OUTSIDE = ["signature", "identifier", "public-key", "all"]
INNER_ID = ["own", "absent"]
INNER_PK = ["own", "other-key", "absent"]
INNER_SIG = ["valid", "over-other-id", "by-other-key", "over-other-session", "controller-label", "arbitrary", "absent"]


def part2(M):
    def h(ex):
        be = hap.backend(ex, M.proto)
        srv = be.srp_server(CODE)
        gen = M.proto.perform_pair_setup_part2(CODE, hap.IOS_ID, be.ba(srv.salt), be.ba(srv.B))
        req, expected = gen.send(None)
        r = dict(req)
        ex.require(eq(be, r[T_STATE], b"\x03") and T_PUBKEY in r and T_PROOF in r, "M3 carries state 3, the SRP public key and proof")
        ok, right_proof = srv.proof_m2(r[T_PUBKEY], r[T_PROOF])
        ex.require(ok, "the accessory (same setup code) accepts the controller's SRP proof")
        psel = ex.choice("proof", PROOFS)
        if psel == "right":
            proof = right_proof
        elif psel == "wrong-code":
            # an accessory that does not know the setup code cannot produce the right proof
            if be.sym:
                other = hap.SymSrpServer(be, "999-99-999")
                other.salt, other.B = srv.salt, srv.B
                proof = other.proof_m2(r[T_PUBKEY], r[T_PROOF])[1]
            else:
                import hashlib
                proof = hashlib.sha512(b"wrong-code" + bytes(right_proof)).digest()
        elif psel == "arbitrary":
            proof = be.arbitrary("proof", 64, avoid=[right_proof] if be.sym else ())
        elif psel == "short":
            proof = as_rope(right_proof).slice(0, 63) if be.sym else bytes(right_proof)[:63]
        elif psel == "front-truncated":
            proof = as_rope(right_proof).slice(1, 64) if be.sym else bytes(right_proof)[1:]
            if not be.sym:
                # 1 in 256 real proofs starts with a zero byte: without it the value is numerically the same proof, which the
                # client may accept (C02 decides that case); it is not a *wrong* proof
                ex.assume(bytes(right_proof)[0] != 0)
        elif psel == "empty":
            proof = b""
        else:
            proof = None
        fields = [(T_STATE, b"\x04")] + ([(T_PROOF, proof)] if proof is not None else [])
        if psel == "absent-but-encrypted-data":
            # no proof at all, but some other item of a later message rides along (needs no knowledge of the setup code)
            fields.append((T_ENC, be.arbitrary("m4enc", 24)))
            expected = None  # as BLE hands it over (the IP/CoAP filter for M4 would drop the item)
        try:
            req, expected = send(M, be, gen, fields, expected)
        except StopIteration:
            ex.require(False, "no pairing data after M4")
            return ex.observe("returned-at-M4")
        except Exception:
            ex.tag("m4-rejected")
            ex.require(psel != "right", "the correct accessory proof is accepted")
            return ex.observe("rejected-at-M4")
        ex.require(psel == "right", "a wrong, altered, truncated or missing accessory proof makes pairing fail")
        if psel != "right":
            return ex.observe("ACCEPTED-WRONG-PROOF")
        # ---- M5: the conformant accessory checks the controller's exchange message
        K = srv.session_key()
        enc_key = be.hkdf(K, b"Pair-Setup-Encrypt-Salt", b"Pair-Setup-Encrypt-Info")
        r5 = dict(req)
        ex.require(eq(be, r5[T_STATE], b"\x05") and T_ENC in r5, "M5 carries state 5 and encrypted data")
        pt = be.decrypt(enc_key, b"PS-Msg05", r5[T_ENC])
        ex.require(pt is not None, "the accessory decrypts M5 (PS-Msg05, key from Pair-Setup-Encrypt-Salt/Info)")
        ios_ltpk = None
        if pt is not None:
            sub = dict(M.tlv.TLV.decode_bytes(pt))
            good = T_ID in sub and T_PUBKEY in sub and T_SIG in sub
            ex.require(good, "M5 sub-TLV carries identifier, public key and signature")
            if good:
                ios_ltpk = sub[T_PUBKEY]
                ios_x = be.hkdf(K, b"Pair-Setup-Controller-Sign-Salt", b"Pair-Setup-Controller-Sign-Info")
                ex.require(eq(be, sub[T_ID], hap.IOS_ID.encode()), "M5 identifier is the controller's pairing id")
                ex.require(be.verify_pub(ios_ltpk, sub[T_SIG], hap.cat(be, ios_x, hap.IOS_ID.encode(), ios_ltpk)),
                           "the accessory verifies the controller's signature over iOSDeviceX|id|LTPK")
        # ---- M6
        acc_x = be.hkdf(K, b"Pair-Setup-Accessory-Sign-Salt", b"Pair-Setup-Accessory-Sign-Info")
        # the identifier is whatever the accessory presents: upper case, lower case, not even an address
        own_pk, own_id = hap.LT_PUB["A"], ex.choice("accessory_id", ACC_IDS)

        def seal(items, key=enc_key, label=b"PS-Msg06"):
            return be.encrypt(key, label, be.b(tlv8_encode(items)))

        valid_sig = be.sign("A", hap.cat(be, acc_x, own_id, own_pk))
        honest_items = [(T_ID, own_id), (T_PUBKEY, own_pk), (T_SIG, valid_sig)]
        honest = seal(honest_items)
        msel = ex.choice("m6", M6S)
        authentic = False
        state6 = b"\x06"
        presented = (own_id, own_pk)
        if msel == "honest":
            m6, authentic = honest, True
        elif msel == "honest-but-empty-state":
            m6, state6 = honest, b""  # a State item truncated to zero length is not the expected step number
        elif msel == "honest-with-an-undefined-error-code":
            m6 = honest  # valid content next to an Error item whose code is not one of 01..07 (any other byte, or two bytes)
            outer_error = [(7, be.arbitrary("m6err", 1)) if ex.fresh_bool("one_byte_error") else (7, b"\x02\x00")]
        elif msel == "absent":
            m6 = None
        elif msel == "arbitrary":
            m6 = be.arbitrary("m6", 120, avoid=be.known_values(("aead",)))
        elif msel == "truncated":
            m6 = as_rope(honest).slice(0, slen(honest) - 1) if be.sym else bytes(honest)[:-1]
        elif msel == "wrong-key-label":
            m6 = seal(honest_items, key=be.hkdf(K, b"Pair-Setup-Controller-Sign-Salt", b"Pair-Setup-Controller-Sign-Info"))
        elif msel == "wrong-nonce":
            m6 = seal(honest_items, label=b"PS-Msg05")
        elif msel == "fields-outside-envelope":
            # required fields ride in the clear next to the encrypted data instead of inside it
            osel = ex.choice("outside", OUTSIDE)
            moved = {"signature": [T_SIG], "identifier": [T_ID], "public-key": [T_PUBKEY], "all": [T_ID, T_PUBKEY, T_SIG]}[osel]
            m6 = seal([it for it in honest_items if it[0] not in moved])
            outer_extra = [it for it in honest_items if it[0] in moved]
        else:
            isel, ksel, ssel = ex.choice("inner_id", INNER_ID), ex.choice("inner_pk", INNER_PK), ex.choice("inner_sig", INNER_SIG)
            pk = own_pk if ksel == "own" else hap.LT_PUB["B"] if ksel == "other-key" else None
            signer = "A" if ksel != "other-key" else "B"
            pkv = pk if pk is not None else own_pk
            if ssel == "valid":
                sig = be.sign(signer, hap.cat(be, acc_x, own_id, pkv))
            elif ssel == "over-other-id":
                sig = be.sign(signer, hap.cat(be, acc_x, hap.OTHER_ID.encode(), pkv))
            elif ssel == "by-other-key":
                sig = be.sign("B" if signer == "A" else "A", hap.cat(be, acc_x, own_id, pkv))
            elif ssel == "over-other-session":
                sig = be.sign(signer, hap.cat(be, be.hkdf(be.hkdf(K, b"other", b"session"), b"Pair-Setup-Accessory-Sign-Salt", b"Pair-Setup-Accessory-Sign-Info"), own_id, pkv))
            elif ssel == "controller-label":
                sig = be.sign(signer, hap.cat(be, be.hkdf(K, b"Pair-Setup-Controller-Sign-Salt", b"Pair-Setup-Controller-Sign-Info"), own_id, pkv))
            elif ssel == "arbitrary":
                sig = be.arbitrary("sig", 64, avoid=be.known_values(("sig",)))
            else:
                sig = None
            items = ([(T_ID, own_id)] if isel == "own" else []) + ([(T_PUBKEY, pk)] if pk is not None else []) + ([(T_SIG, sig)] if sig is not None else [])
            m6 = seal(items)
            authentic = isel == "own" and pk is not None and ssel == "valid"
            presented = (own_id, pkv)
        fields = [(T_STATE, state6)] + ([(T_ENC, m6)] if m6 is not None else [])
        if msel == "honest-with-an-undefined-error-code":
            fields = fields[:1] + outer_error + fields[1:]
        if msel == "fields-outside-envelope":
            fields += outer_extra
        # BLE hands the whole decoded reply to the state machine, IP/CoAP apply the 'expected' filter
        transport = ex.choice("transport", ["filtered", "unfiltered"])
        try:
            send(M, be, gen, fields, expected if transport == "filtered" else None)
            ex.require(False, "M6 ends the exchange")
            return ex.observe("no-stop")
        except StopIteration as s:
            data = s.value
        except Exception:
            ex.tag("m6-rejected")
            ex.require(not authentic, "an authentic M6 (decrypts, carries id/key/signature, signature valid under the presented key) is accepted")
            return ex.observe("rejected-at-M6")
        ex.require(authentic, "an M6 that is altered, truncated, wrongly keyed, incomplete or wrongly signed makes pairing fail")
        if not authentic:
            return ex.observe("ACCEPTED-BAD-M6")
        ex.tag("paired")
        ex.require(data["AccessoryPairingID"] == presented[0].decode() and data["AccessoryLTPK"] == presented[1].hex(),
                   "returned accessory identifier and key are exactly the authenticated ones")
        ex.require(data["iOSPairingId"] == hap.IOS_ID, "returned controller id is the one supplied")
        # controller key pair belongs together and is the one announced in M5
        if be.sym:
            W = World.get()
            sk, pk = data["iOSDeviceLTSK"], data["iOSDeviceLTPK"]
            ms = W.whole_term(sk.rope) if isinstance(sk, HexOf) else None
            mp = W.whole_term(pk.rope) if isinstance(pk, HexOf) else None
            pair = ms is not None and mp is not None and ms["key"][0] == "edsk" and mp["key"][0] == "edpub" and ms["key"][1] == mp["key"][1]
            ex.require(pair, "returned controller private and public key belong together")
            ex.require(ios_ltpk is not None and mp is not None and rope_eq(pk.rope, ios_ltpk), "returned controller public key is the one sent to the accessory in M5")
        else:
            from cryptography.hazmat.primitives import serialization as ser
            from cryptography.hazmat.primitives.asymmetric import ed25519
            pub = ed25519.Ed25519PrivateKey.from_private_bytes(bytes.fromhex(data["iOSDeviceLTSK"])).public_key().public_bytes(ser.Encoding.Raw, ser.PublicFormat.Raw)
            ex.require(pub.hex() == data["iOSDeviceLTPK"], "returned controller private and public key belong together")
            ex.require(ios_ltpk is not None and bytes(ios_ltpk) == pub, "returned controller public key is the one sent to the accessory in M5")
        return ex.observe("paired")
    return h


OTHER_CODE = "999-99-998"


def honest_exchange(M, be, srv, ident, lt, replay=None, controller_code=None):
    """pair-setup M3..M6 against a conformant accessory (or, with replay=(proof, m6), against a party that only replays what it
    recorded).  -> (pairing data or None, SRP public value of the controller, (proof, m6))"""
    gen = M.proto.perform_pair_setup_part2(controller_code or CODE, hap.IOS_ID, be.ba(srv.salt), be.ba(srv.B))
    req, expected = gen.send(None)
    r = dict(req)
    try:
        if replay is None:
            ok, proof = srv.proof_m2(r[T_PUBKEY], r[T_PROOF])
        else:
            proof = replay[0]
        req, expected = send(M, be, gen, [(T_STATE, b"\x04"), (T_PROOF, proof)], expected)
        if replay is None:
            K = srv.session_key()
            enc_key = be.hkdf(K, b"Pair-Setup-Encrypt-Salt", b"Pair-Setup-Encrypt-Info")
            acc_x = be.hkdf(K, b"Pair-Setup-Accessory-Sign-Salt", b"Pair-Setup-Accessory-Sign-Info")
            pk = hap.LT_PUB[lt]
            sig = be.sign(lt, hap.cat(be, acc_x, ident, pk))
            m6 = be.encrypt(enc_key, b"PS-Msg06", be.b(tlv8_encode([(T_ID, ident), (T_PUBKEY, pk), (T_SIG, sig)])))
        else:
            m6 = replay[1]
        send(M, be, gen, [(T_STATE, b"\x06"), (T_ENC, m6)], expected)
    except StopIteration as st:
        return st.value, r[T_PUBKEY], (proof, m6)
    except Exception:
        return None, r[T_PUBKEY], None
    return None, r[T_PUBKEY], None


def two_pairings(M):
    """two pair-setups in one process: nothing of the first may leak into, or be altered by, the second"""
    def h(ex):
        be = hap.backend(ex, M.proto)
        srv1 = be.srp_server(CODE)
        data1, a1, rec = honest_exchange(M, be, srv1, hap.ACC_ID.encode(), "A")
        ex.require(data1 is not None, "the first (honest) pairing succeeds")
        if data1 is None:
            return ex.observe("first-failed")
        snapshot = dict(data1)
        second = ex.choice("second_exchange", ["honest-other-accessory", "replay-of-the-first", "controller-got-a-new-code-accessory-still-has-the-old-one"])
        ex.tag(second)
        if second == "honest-other-accessory":
            srv2 = hap.SymSrpServer(be, CODE, n=2) if be.sym else be.srp_server(CODE)
            data2, a2, _ = honest_exchange(M, be, srv2, hap.OTHER_ID.encode(), "B")
            ex.require(not decide(eq(be, a1, a2)), "the controller's SRP public value is fresh in every exchange")
            ex.require(data2 is not None and data2["AccessoryPairingID"] == hap.OTHER_ID and data2["AccessoryLTPK"] == hap.LT_PUB["B"].hex(),
                       "the second pairing returns the second accessory's authenticated identity")
            ex.require(data2 is not data1 and all(data1.get(k) is v or data1.get(k) == v for k, v in snapshot.items()) and len(data1) == len(snapshot),
                       "the data returned by the first pairing is not altered by a later pairing")
        elif second.startswith("controller-got"):
            # same accessory (same salt, same verifier for the old code), the controller is now given another code: the exchange
            # must fail at M4 - whatever the first exchange computed for this salt must not be reused
            data2, a2, _ = honest_exchange(M, be, srv1.next_exchange(), hap.ACC_ID.encode(), "A", controller_code=OTHER_CODE)
            ex.require(data2 is None, "an accessory holding another setup code than the controller is refused, also right after an exchange with its code")
        else:
            # a party that knows neither the setup code nor a long-term key replays the recorded M2 (salt, B), M4 and M6
            data2, a2, _ = honest_exchange(M, be, srv1, None, None, replay=rec)
            ex.require(data2 is None, "a replay of an earlier exchange returns no pairing data")
        return ex.observe("done")
    return h


def build(tier, mutate=None):
    from . import c02
    C = copies(mutate)
    R = reals()
    units = [
        Unit("setup/part1-M2", part1(C), part1(R), bounds={"fields": "salt / public key present or absent"}, regions=["returned", "rejected"]),
        Unit("setup/part2-M4-M6", part2(C), part2(R), split=True,
             bounds={"M4 proof": PROOFS, "M6": M6S, "M6 sub-TLV": {"identifier": INNER_ID, "public key": INNER_PK, "signature": INNER_SIG}},
             regions=["m4-rejected", "m6-rejected", "paired"]),
        # the same exchange with the real SRP client copy instead of the ideal one (C02's unit): what the ideal SRP cannot see,
        # e.g. the session key taking a detour through an integer and losing its leading zero bytes
        Unit("setup/srp-values-as-bytes (unit of C02)", c02.protocol_unit(c02.copies(mutate)), c02.protocol_unit(c02.reals()),
             bounds={"leading zero in": ["none", "A", "K", "M1"]}, regions=["lz-none", "lz-K"], diff_sample=100000),
        Unit("setup/two-pairings", two_pairings(C), two_pairings(R), bounds={"exchanges": 2, "second": "another honest accessory / a replay of the first exchange"},
             regions=["honest-other-accessory", "replay-of-the-first", "controller-got-a-new-code-accessory-still-has-the-old-one"]),
    ]
    for u in units:
        u.diff_sample = 100000  # every proved path is also replayed with real SRP / Ed25519 / ChaCha20 on the real library
    return units


CANARIES = [
    ("server proof not verified", {PROTO: lambda s: s.replace("    if not srp_client.verify_servers_proof_bytes(response_tlv[TLV.kTLVType_Proof]):", "    if False:")}, lambda n: "part2" in n),
    ("M6 signature not verified", {PROTO: lambda s: s.replace("        e25519s.verify(bytes(accessory_sig), bytes(accessory_info))\n", "        pass\n")}, lambda n: "part2" in n),
    ("accessory sign label swapped", {PROTO: lambda s: s.replace('        b"Pair-Setup-Accessory-Sign-Salt",\n        b"Pair-Setup-Accessory-Sign-Info",', '        b"Pair-Setup-Controller-Sign-Salt",\n        b"Pair-Setup-Controller-Sign-Info",')}, lambda n: "part2" in n),
    ("M5 nonce label", {PROTO: lambda s: s.replace('b"", NONCE_PADDING + b"PS-Msg05", bytes(sub_tlv_b)', 'b"", NONCE_PADDING + b"PS-Msg06", bytes(sub_tlv_b)')}, lambda n: "part2" in n),
    ("returned LTPK is the controller's", {PROTO: lambda s: s.replace('"AccessoryLTPK": hexlify(accessory_ltpk).decode(),', '"AccessoryLTPK": ios_device_public_bytes.hex(),')}, lambda n: "part2" in n),
    ("salt and public key swapped", {PROTO: lambda s: s.replace("    return response_tlv[TLV.kTLVType_Salt], response_tlv[TLV.kTLVType_PublicKey]", "    return response_tlv[TLV.kTLVType_PublicKey], response_tlv[TLV.kTLVType_Salt]")}, lambda n: "part1" in n),
]

ASSUMPTIONS = [
    "ideal cryptography (DESIGN.md 4.2) including an ideal SRP: client/server proofs and the session key are terms of (setup code, salt, B); an accessory that does not know the code produces a different proof term; real SRP arithmetic is C02",
    "the M6 variants encrypted under the right key model an accessory (or someone who knows the setup code) that misbehaves: such a sender is accepted only if the sub-TLV is complete and the signature verifies under the key it presents",
    "on the real library sampled paths are replayed with the repository's SrpServer and real Ed25519/ChaCha20/HKDF",
    "the disabled MFi validation and the transport drivers of pair-setup are not covered",
]


def main(tier, seed, only=None):
    units = common.filter_units(build(tier), only)
    can = None
    if tier == "thorough" and only is None:
        can = lambda: run_canaries(lambda mut: build("canary", mut), CANARIES, seed)
    return check_property(
        PROP, units, tier, seed,
        explanation="The real pair-setup generators run against an ideal-crypto accessory/adversary: M2 field subsets, M4 proof variants "
                    "(right, from a wrong-code accessory, arbitrary, truncated, absent), M6 variants (honest, arbitrary, truncated, wrong "
                    "key, wrong nonce, every incomplete / wrongly signed sub-TLV); the check proves 'returns data iff fully authenticated', "
                    "consistency of the returned record and that a conformant accessory accepts M3 and M5.",
        assumptions=ASSUMPTIONS, stubs=["SrpClient/x25519/ed25519/ChaCha20Poly1305/hkdf_derive -> ideal primitives", "logger -> no-op"],
        bounds={"tier": tier}, canaries=can, design_ref="DESIGN.md section 5, C03")


def replay(doc):
    return common.std_replay(PROP, build("thorough"), doc)
