"""C08 (partly) - every request gets its own response or a prompt disconnection error.

Hand-driven like the waiter half of C19 (harness/c19w.py): every caller is the real HomeKitConnection.request coroutine
(-> real InsecureHomeKitProtocol.send_bytes/_send_lines, real data_received/HttpResponse, real connection_lost /
_cancel_pending_requests / _connection_lost).  It suspends on harness futures with asyncio.Future's state machine; the
harness plays the loop for: resuming a coroutine whose future is done (either order, optionally only after the next
callback), Task.cancel(), firing the 30 s call_at timer, delivering bytes / connection_lost.  The accessory is a byte
queue: responses (labelled with the request they answer) and EVENT messages are appended in order and delivered in reads
that split and coalesce them.  The schedule is a bounded sequence of symbolic selectors.

The oracle is model-free where possible: a caller that returns must hold the response that names its own request; the
owner sees every completely delivered event once and in order; a caller may fail only with CancelledError (if it was
cancelled) or AccessoryDisconnectedError (if its timer fired, the connection was lost or already abandoned); after a
timeout/cancellation of a request in flight the transport is closed and nothing is written to it any more; once the loss
has been delivered nobody is left waiting."""
import asyncio

import aiohomekit.controller.ip.connection as real_ipc
import aiohomekit.exceptions as X

from symx import Unit, check_property, load, run_canaries

from . import common
from .c19w import FFut, FLoop, Waiter

PROP = "C08"
IPC = "aiohomekit.controller.ip.connection"


def copies(mutate=None):
    return load(IPC, src_transform=(mutate or {}).get(IPC), symbolic=False)  # every value is concrete: real builtins


class Sem:
    """asyncio.Semaphore (CPython 3.12 algorithm) on harness futures"""

    def __init__(self, n):
        self.value, self.waiters = n, []

    def locked(self):
        return self.value == 0 or any(not w.cancelled() for w in self.waiters)

    async def __aenter__(self):
        await self.acquire()

    async def __aexit__(self, *a):
        self.release()

    async def acquire(self):
        if not self.locked():
            self.value -= 1
            return True
        fut = FFut()
        self.waiters.append(fut)
        try:
            try:
                await fut
            finally:
                self.waiters.remove(fut)
        except asyncio.CancelledError:
            if not fut.cancelled():
                self.value += 1
                self._wake_next()
            raise
        if self.value > 0:
            self._wake_next()
        return True

    def release(self):
        self.value += 1
        self._wake_next()

    def _wake_next(self):
        for fut in self.waiters:
            if not fut.done():
                self.value -= 1
                fut.set_result(True)
                return


class Tr:
    def __init__(self):
        self.closed, self.eof, self.written = False, False, []

    def is_closing(self):
        return self.closed

    def writelines(self, parts):
        self.written.append(b"".join(bytes(p) for p in parts))

    def write(self, data):
        self.written.append(bytes(data))

    def write_eof(self):
        self.eof = True

    def close(self):
        self.closed = True

    def abort(self):
        self.closed = True


class Owner:
    name = "owner"

    def __init__(self):
        self.events = []

    def event_received(self, parsed):
        self.events.append(parsed)


def response_for(r, code=200):
    body = b'{"request":%d}' % r
    return b"HTTP/1.1 %d %s\r\nContent-Type: application/hap+json\r\nContent-Length: %d\r\n\r\n%s" % (
        code, b"OK" if code == 200 else b"Connection Authorization Required", len(body), body)


def event_msg(n):
    body = b'{"characteristics":[{"aid":1,"iid":%d,"value":%d}]}' % (10 + n, n)
    return b"EVENT/1.0 200 OK\r\nContent-Type: application/hap+json\r\nContent-Length: %d\r\n\r\n%s" % (len(body), body)


class World:
    def __init__(self, M, limit):
        self.M = M
        self.loop = FLoop()
        self.tr = Tr()
        self.owner = Owner()
        c = self.conn = object.__new__(M.HomeKitConnection)
        c.owner, c.hosts, c.port = self.owner, ["10.0.0.1"], 80
        c.closing = c.closed = False
        c._connector = None
        c.is_secure = True
        c._loop = self.loop
        c._concurrency_limit = Sem(limit)
        c._reconnect_future = None
        c._last_connector_error = None
        c.connected_host, c.host_header = "10.0.0.1", "Host: 10.0.0.1"
        c._pair_verify_failed_hosts = set()
        self.connectors = []
        c._start_connector = lambda: self.connectors.append(1)  # reconnection is C10's subject
        p = self.proto = object.__new__(M.InsecureHomeKitProtocol)
        p.connection, p.result_cbs, p.current_response, p.loop, p.transport = c, [], M.HttpResponse(), self.loop, self.tr
        c.transport, c.protocol = self.tr, p
        self.wire = b""  # bytes the accessory has sent and the controller has not read yet
        self.boundaries = []  # (absolute end offset, kind, label) of the messages appended to the stream
        self.sent_total = 0
        self.read_total = 0
        self.answered = 0  # how many of the received requests the accessory has answered
        self.events_sent = 0
        self.lost = False  # connection_lost has been delivered

    def request_ids(self):
        """ids of the requests in the order the accessory received them"""
        return [int(w.split(b" ")[1].rsplit(b"/", 1)[1]) for w in self.tr.written]

    def append(self, kind, label, data):
        self.wire += data
        self.sent_total += len(data)
        self.boundaries.append((self.sent_total, kind, label))

    def complete(self, kind):
        return [lab for end, k, lab in self.boundaries if k == kind and end <= self.read_total]

    def read(self, n):
        data, self.wire = self.wire[:n], self.wire[n:]
        self.read_total += len(data)
        try:
            self.proto.data_received(data)
        except Exception as e:  # noqa
            # asyncio: "Fatal error: protocol.data_received() call failed." -> the transport is force-closed and
            # connection_lost(exc) is delivered
            self.tr.closed = True
            self.wire = b""
            self.deliver_loss(e)
            return e
        return None

    def deliver_loss(self, exc=None):
        self.lost = True
        self.tr.closed = True
        self.proto.connection_lost(exc)


def caller_unit(M, n_callers, depth, limits, with_unsolicited):
    events = ["start-next", "answer", "event", "read-all", "read-partial", "peer-close", "peer-eof", "controller-drops-connection", "loop-delivers-loss"]
    events += ["cancel-%d" % k for k in range(n_callers)] + ["timeout-%d" % k for k in range(n_callers)]
    if with_unsolicited:
        events.append("unsolicited-response")

    def h(ex):
        limit = ex.choice("concurrency_limit", limits)
        W = World(M, limit)
        callers, cancelled, timed_out, timers, codes, fired = [], set(), set(), {}, {}, set()
        closed_at_write = None

        def track_timer(k, before):
            if len(W.loop.timers) > before:
                timers[k] = W.loop.timers[-1]

        def step(k):
            before = len(W.loop.timers)
            callers[k].step()
            track_timer(k, before)

        def run_ready(reverse):
            progressed = True
            while progressed:
                progressed = False
                order = list(range(len(callers)))
                if reverse:
                    order.reverse()
                for k in order:
                    if callers[k].ready():
                        step(k)
                        progressed = True

        for i in range(depth):
            ev = ex.choice("event%d" % i, events)
            outstanding = len(W.tr.written) - W.answered
            cb_exc = None
            if ev == "start-next":
                ex.assume(len(callers) < n_callers)
                k = len(callers)
                callers.append(Waiter(W.conn.request("GET", "/r/%d" % k)))
                step(k)
            elif ev == "answer":
                ex.assume(outstanding > 0 and not W.tr.closed)
                code = ex.choice("status%d" % i, [200, 470])
                rid = W.request_ids()[W.answered]
                codes[rid] = code
                W.append("response", rid, response_for(rid, code))
                W.answered += 1
            elif ev == "unsolicited-response":
                ex.assume(outstanding == 0 and not W.tr.closed and not W.wire)
                W.append("unsolicited", None, response_for(99))
                cb_exc = W.read(len(W.wire))
                ex.tag("unsolicited")
            elif ev == "event":
                ex.assume(not W.tr.closed)
                W.append("event", W.events_sent, event_msg(W.events_sent))
                W.events_sent += 1
            elif ev in ("read-all", "read-partial"):
                ex.assume(W.wire and not W.tr.closed)
                n = len(W.wire)
                if ev == "read-partial":
                    n = ex.choice("cut%d" % i, sorted({1, 17, n // 2, n - 1} - {0, n}) or [n])
                    ex.assume(n < len(W.wire) or len(W.wire) == 1)
                cb_exc = W.read(n)
            elif ev == "peer-close":
                ex.assume(not W.lost)
                W.wire = b""
                W.deliver_loss(None)
                ex.tag("peer-close")
            elif ev == "peer-eof":
                # the accessory half-closes: eof_received(); a falsy return value makes asyncio close the transport
                ex.assume(not W.lost and not W.tr.closed)
                W.wire = b""
                keep_open = W.proto.eof_received()
                ex.require(not keep_open, "after the accessory's EOF the transport is not kept open")
                if not keep_open:
                    W.tr.closed = True
                ex.tag("peer-close")
            elif ev == "controller-drops-connection":
                # close() / a failed re-verification drop the transport (and forget it) while requests may still be outstanding
                ex.assume(not W.tr.closed and W.conn.transport is W.tr)
                W.wire = b""
                W.conn._drop_transport()
                ex.tag("controller-drop")
            elif ev == "loop-delivers-loss":
                ex.assume(W.tr.closed and not W.lost)
                W.deliver_loss(None)
            else:
                kind, k = ev.split("-")
                k = int(k)
                ex.assume(k < len(callers) and callers[k].state == "suspended" and k not in cancelled and k not in timed_out)
                if kind == "cancel":
                    callers[k].task_cancel()
                    cancelled.add(k)
                    ex.tag("cancelled")
                else:
                    t = timers.get(k)
                    ex.assume(t is not None and not t.cancelled and k not in fired)
                    had_result = callers[k].awaiting.done()
                    t.cb(*t.args)  # the loop runs the call_at callback
                    fired.add(k)
                    if not had_result:  # a timer that fires after the response has arrived changes nothing
                        timed_out.add(k)
                        ex.tag("timeout")
            if cb_exc is not None:
                ex.require(ev == "unsolicited-response", "reading what the accessory sent does not make data_received raise (%s)" % type(cb_exc).__name__)
            written_before = len(W.tr.written)
            closed_before = W.tr.closed
            lag = i + 1 < depth and any(c.ready() for c in callers) and ex.fresh_bool("next_callback_runs_before_wakeups%d" % i)
            if not lag:
                run_ready(sum(1 for c in callers if c.ready()) >= 2 and ex.fresh_bool("resume_order_reversed%d" % i))
            ok = True
            if closed_before:
                ok &= ex.require(len(W.tr.written) == written_before, "nothing is written to a connection that has been abandoned")
            # ---- per caller
            ids = W.request_ids()
            done_resp = W.complete("response")
            for k, c in enumerate(callers):
                if c.ready():
                    continue  # wake-up still queued
                if c.state == "returned":
                    ex.tag("answered")
                    body = bytes(c.value.body) if c.value is not None else None
                    ok &= ex.require(body == b'{"request":%d}' % k, "a caller that returns holds the response the accessory sent for its own request")
                    ok &= ex.require(codes.get(k) == 200 and c.value.code == 200, "a caller returns normally only for a non-error status")
                elif c.state == "raised" and isinstance(c.value, M.HttpErrorResponse):
                    ex.tag("http-error")
                    ok &= ex.require(codes.get(k) == 470 and bytes(c.value.response.body) == b'{"request":%d}' % k,
                                     "an HTTP error status is raised to the caller whose request it answers, with that response")
                elif c.state == "cancelled":
                    ok &= ex.require(k in cancelled, "only a cancelled caller ends with CancelledError")
                elif c.state == "raised":
                    why = type(c.value).__name__
                    ok &= ex.require(isinstance(c.value, X.AccessoryDisconnectedError), "a request fails with a disconnection error, nothing else (%s)" % why)
                    ok &= ex.require(k in timed_out or W.tr.closed, "a request fails only after its timeout or on an abandoned / lost connection")
                else:  # suspended
                    sent = k in ids
                    if sent and k in done_resp and not lag:
                        ok &= ex.require(False, "a caller whose response has been delivered completely is completed")
                    if W.lost and not lag:
                        ok &= ex.require(False, "once the connection is lost every outstanding request fails promptly instead of hanging")
                if (k in timed_out or k in cancelled) and k in ids and c.state in ("raised", "cancelled"):
                    ok &= ex.require(W.tr.closed, "after a timeout or cancellation of a request in flight the connection is abandoned")
            # ---- events
            done_ev = W.complete("event")
            if not lag or True:
                got = [e["characteristics"][0]["iid"] - 10 for e in W.owner.events]
                if W.lost or W.tr.closed:
                    ok &= ex.require(got == done_ev[:len(got)] and len(got) <= len(done_ev), "event listeners see events once and in order")
                else:
                    ok &= ex.require(got == done_ev, "every completely delivered EVENT reaches the event listener exactly once, in order")
            if not ok:
                return ex.observe(["stopped at the first failed obligation", i])
        return ex.observe([c.state for c in callers] + [len(W.owner.events), W.tr.closed])
    return h


def build(tier, mutate=None):
    C = copies(mutate)
    R = real_ipc
    plans = [(2, 5, [1, 2], False)] if tier != "thorough" else [(2, 6, [1, 2], True), (3, 5, [1, 3], False)]
    if tier == "canary":
        plans = [(2, 5, [1, 2], True)]
    units = []
    for n, depth, limits, uns in plans:
        units.append(Unit("callers/%d-callers,%d-events%s" % (n, depth, ",unsolicited" if uns else ""), caller_unit(C, n, depth, limits, uns),
                          caller_unit(R, n, depth, limits, uns), split=True,
                          bounds={"callers": n, "events": depth, "concurrency limit": limits, "reads": "all pending bytes, or a prefix cut at 1 / 17 / half / all-but-one",
                                  "unsolicited response": "with nothing outstanding" if uns else "not in this unit",
                                  "wake-ups": "at once (either order), or after the next callback"},
                          regions=["answered", "http-error", "cancelled", "timeout", "peer-close", "controller-drop"] + (["unsolicited"] if uns else []), diff_sample=400, max_paths=3000000))
    if tier != "canary":
        # the encrypted protocol underneath: a completely delivered frame is handed on whatever the read boundaries (unit of C05)
        from . import c05
        units.append(Unit("secure-framing/F=1,R=2 (unit of C05)", c05.inbound(c05.copies(mutate), 1, 2, None), c05.inbound(c05.real_conn, 1, 2, None), split=True,
                          bounds={"frames": 1, "reads": 2, "plaintext_len": "0..1024 (symbolic)", "cut": "all positions (symbolic)"}, regions=["interior-cut"]))
    return units


CANARIES = [
    ("responses popped from the wrong end", {IPC: lambda s: s.replace("                    next_callback = self.result_cbs.pop(0)", "                    next_callback = self.result_cbs.pop()")}, None),
    ("events consumed as responses", {IPC: lambda s: s.replace('                elif http_name == "event":\n                    self.connection.event_received(self.current_response)', '                elif http_name == "event":\n                    self.result_cbs.pop(0).set_result(self.current_response)')}, None),
    ("transport kept after a timeout", {IPC: lambda s: s.replace("            self.transport.write_eof()\n            self.transport.close()\n            if isinstance(ex, asyncio.TimeoutError):", "            if isinstance(ex, asyncio.TimeoutError):")}, None),
    ("pending requests not failed on loss", {IPC: lambda s: s.replace("        # connection that is in use now nor start another connector\n        self._cancel_pending_requests()", "        # connection that is in use now nor start another connector")}, None),
]

ASSUMPTIONS = [
    "PARTIAL, hand-driven: every caller is the real HomeKitConnection.request coroutine on the real InsecureHomeKitProtocol; futures, the 30 s timer, the semaphore and the transport are loop-free stand-ins with asyncio's documented behaviour (Future state machine; Task.cancel() cancels the awaited future or throws CancelledError at the wake-up; Semaphore = CPython 3.12's algorithm; an exception escaping data_received force-closes the transport and delivers connection_lost)",
    "the accessory is a byte queue of labelled responses (in request order) and EVENT messages, delivered in reads that split and coalesce messages; no bytes are read from a transport the controller has closed; every symbolic variable is a discrete selector, so the guarantee equals bounded exhaustive exploration of these schedules",
    "excluded as ambiguous: a timeout after a cancellation of the same caller and vice versa; an unsolicited response while a request is outstanding (HTTP/1.1 cannot tell it from the answer)",
    "NOT decided: the encrypted protocol (C05/C06 cover framing and counters), real sockets and timers, the event loop's own scheduling order beyond the two resume orders and the one-callback delay",
]


def main(tier, seed, only=None):
    units = common.filter_units(build(tier), only)
    can = None
    if tier == "thorough" and only is None:
        can = lambda: run_canaries(lambda mut: build("canary", mut), CANARIES, seed)
    return check_property(
        PROP, units, tier, seed,
        explanation="The real request/_send_lines/data_received/connection_lost code of ip/connection.py is hand-driven for every bounded "
                    "schedule of callers starting, the accessory answering / sending events, split and coalesced reads, cancellations, "
                    "30 s timeouts and connection loss: a returning caller holds the response to its own request, events go to the "
                    "listener once and in order, a timed-out or cancelled request abandons the connection, and after a loss nobody hangs.",
        assumptions=ASSUMPTIONS, stubs=["asyncio futures / call_at / Semaphore / transport -> harness stand-ins", "_start_connector -> recorder"],
        bounds={"tier": tier}, canaries=can, design_ref="DESIGN.md section 0.3a, C08")


def replay(doc):
    return common.std_replay(PROP, build("thorough"), doc)
