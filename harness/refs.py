"""Reference codecs written from the HAP specification (not from the code under test).
They operate on ropes, so the same code serves the symbolic and the concrete (replay) mode."""
import builtins as _b

from symx import SymByteArray, SymBytes, as_rope, cseg, decide, int_to_rope, simp, slen
from symx.rope import cells_seg


def rope(*parts):
    out = SymBytes([])
    for p in parts:
        out = out + (as_rope(p) if not isinstance(p, SymBytes) else p)
    return out


def byte(v):
    """one byte with a possibly symbolic value"""
    if isinstance(v, int):
        return SymBytes([cseg(_b.bytes([v]))])
    return SymBytes([cells_seg([v])])


# ---------------------------------------------------------------- TLV8 (HAP 14.1)
def tlv8_encode(items):
    """canonical TLV8: maximal 255-byte fragments; a zero-length value is `t 00`"""
    out = SymBytes([])
    for t, v in items:
        v = as_rope(v)
        n = v.length()
        if decide(n == 0):
            out = out + byte(t) + b"\x00"
            continue
        pos = 0
        while decide(pos < n):
            take = 255 if decide(n - pos > 255) else simp(n - pos)
            out = out + byte(t) + byte(take) + v.slice(pos, simp(pos + take))
            pos = simp(pos + take)
    return out


def tlv8_scan(data):
    """fragments of a TLV8 byte string: [(type, length, value rope)], or None when truncated"""
    data = as_rope(data)
    n = data.length()
    pos = 0
    frags = []
    while decide(pos < n):
        if decide(pos + 2 > n):
            return None
        t = data[pos]
        ln = data[simp(pos + 1)]
        if decide(pos + 2 + ln > n):
            return None
        frags.append((t, ln, data.slice(simp(pos + 2), simp(pos + 2 + ln))))
        pos = simp(pos + 2 + ln)
    return frags


def tlv8_merge(frags):
    """HAP: consecutive fragments of one type form one item"""
    items = []
    for t, ln, v in frags:
        if items and decide(items[-1][0] == t):
            items[-1] = (items[-1][0], simp(items[-1][1] + ln), items[-1][2] + v)
        else:
            items.append((t, ln, v))
    return items
