"""C15 - pairing TLV codec: decoder totality, canonical encoding, round trip, expected filter,
BLE fragment reassembly.  Real code: aiohomekit/protocol/tlv.py, ble/client.py:_pairing_char_write."""
import itertools

import aiohomekit.controller.ble.client as real_client
import aiohomekit.protocol.tlv as real_tlv

from symx import Unit, as_rope, check_property, decide, load, rope_eq, run_canaries, simp, slen
from symx.core import SymInt

from . import common
from .refs import rope, tlv8_encode, tlv8_merge, tlv8_scan

PROP = "C15"


CLIENT = "aiohomekit.controller.ble.client"


def client_copy(T, mutate=None):
    return load(CLIENT, deps={"aiohomekit.protocol.tlv": T}, src_transform=(mutate or {}).get(CLIENT))


def reassembly_unit(M, CL, r, total):
    """BLE pairing fragment reassembly (_pairing_char_write): a reply of `total` bytes delivered as r-1 FragmentData pieces and
    one FragmentLast piece, split at arbitrary positions (empty pieces included)"""
    from symx import drive

    def h(ex):
        sym = not getattr(ex, "concrete", False)
        big = ex.fresh_bytes("value", total - 5, opaque=True)
        body = tlv8_encode([(6, b"\x02"), (3, big)])  # State + a long value: the reply the state machine will see
        n = slen(body)
        cuts = [0]
        for i in range(r - 1):
            c = ex.fresh_int("cut%d" % i, 0, 2000)
            ex.assume(c >= cuts[-1])
            ex.assume(c <= n)
            cuts.append(c)
        cuts.append(n)
        pieces = []
        for i, (a, b) in enumerate(zip(cuts, cuts[1:])):
            chunk = as_rope(body).slice(a, b)
            pieces.append(tlv8_encode([(0x0D if i == r - 1 else 0x0C, chunk)]))
        pieces = [p if sym else bytes(p.concrete()) for p in pieces]
        writes = []

        async def char_write(client, ek, dk, handle, iid, data):
            writes.append(data)
            return pieces[len(writes) - 1]

        class Client:
            address = "aa:bb"

        saved = CL.char_write
        CL.char_write = char_write
        try:
            got = drive(CL._pairing_char_write(Client(), "handle", 1, [(6, b"\x01")]))
        finally:
            CL.char_write = saved
        want = dict((t if isinstance(t, int) else int(t), v) for t, _ln, v in tlv8_merge(tlv8_scan(body)))
        ex.require(sorted(got.keys()) == sorted(want.keys()), "reassembly: the reassembled reply has the items the accessory sent")
        for k in want:
            if k in got:
                ex.require(rope_eq(got[k], want[k]), "reassembly: item values are the concatenation of the fragments, in order")
        ex.require(len(writes) == r, "reassembly: one write per fragment (the request, then one acknowledgement per non-final fragment)")
        ex.require(rope_eq(writes[0], b"\x06\x01\x01"), "reassembly: the first write is the encoded request")
        for w in writes[1:]:
            ex.require(rope_eq(w, b"\x0c\x00"), "reassembly: every further write is the empty FragmentData acknowledgement")
        if any(decide(a == b) for a, b in zip(cuts, cuts[1:])):
            ex.tag("empty-fragment")
        return ex.observe([len(writes), slen(got.get(3, b""))])
    return h


def too_many_fragments(CL):
    """more than MAX_REASSEMBLY fragments must end with an error, not loop forever (real library, concrete)"""
    from symx import drive
    n = {"i": 0}

    async def char_write(client, ek, dk, handle, iid, data):
        n["i"] += 1
        return bytes([0x0C, 1, 0x41])

    class Client:
        address = "aa:bb"

    saved = CL.char_write
    CL.char_write = char_write
    errs = []
    try:
        try:
            drive(CL._pairing_char_write(Client(), "handle", 1, [(6, b"\x01")]))
            errs.append("an endless stream of fragments was accepted after %d pieces" % n["i"])
        except ValueError:
            if n["i"] != CL.MAX_REASSEMBLY:
                errs.append("gave up after %d fragments, MAX_REASSEMBLY is %d" % (n["i"], CL.MAX_REASSEMBLY))
    finally:
        CL.char_write = saved
    return {"cases": 1, "errors": errs}


def copies(mutate=None):
    mutate = mutate or {}
    T = load("aiohomekit.protocol.tlv", src_transform=mutate.get("aiohomekit.protocol.tlv"))
    common.keep_tlv_to_string(T)
    return T


# ------------------------------------------------------------------ unit factories
def totality(M, N):
    """every byte string of length 0..N: returns the reference items or raises TlvParseException"""
    def h(ex):
        data = ex.fresh_bytes("data", 0, N)
        frags = tlv8_scan(data)
        # through decode_bytearray with the caller's own buffer: decoding (also a refused one) must leave it as it was
        mine = M.__builtins__["bytearray"](data) if not getattr(ex, "concrete", False) else bytearray(data)
        try:
            got = M.TLV.decode_bytearray(mine)
        except M.TlvParseException:
            ex.tag("parse-error")
            ex.require(frags is None, "decode: TlvParseException only for truncated input")
            ex.require(rope_eq(mine, data), "decode: the caller's buffer is not consumed or altered (refused input)")
            return ex.observe("TlvParseException")
        ex.require(rope_eq(mine, data), "decode: the caller's buffer is not consumed or altered")
        ex.require(frags is not None, "decode: truncated input must raise TlvParseException")
        if frags is None:
            return ex.observe(got)
        want = tlv8_merge(frags)
        ok = len(got) == len(want)
        ex.require(ok, "decode: number of items equals reference")
        if ok:
            for g, w in zip(got, want):
                ex.require(g[0] == w[0], "decode: item type equals reference")
                ex.require(slen(g[1]) == w[1], "decode: value length equals the declared lengths merged into it")
                ex.require(rope_eq(g[1], w[2]), "decode: item value equals reference")
            if len(got) >= 2:
                ex.tag("two-items")
            if any(decide(w[1] > 0) for w in want):
                ex.tag("non-empty-value")
        return ex.observe(got)
    return h


def encode_unit(M, lengths, key_lo=0, key_hi=255):
    """items with symbolic types and opaque contents of the given lengths"""
    m = len(lengths)

    def h(ex):
        ts = [ex.fresh_int("t%d" % i, key_lo, key_hi) for i in range(m)]
        vs = [ex.fresh_bytes("v%d" % i, L, opaque=True) for i, L in enumerate(lengths)]
        items = list(zip(ts, vs))
        bad_key = any(decide(t < 0) or decide(t > 255) for t in ts)
        sep_with_data = any(decide(t == 255) and L > 0 for t, L in zip(ts, lengths))
        try:
            enc = M.TLV.encode_list(items)
        except ValueError:
            ex.tag("ValueError")
            ex.require(bad_key or sep_with_data, "encode: ValueError only for an invalid key or a separator with data")
            return ex.observe("ValueError")
        ex.require(not bad_key, "encode: key outside 0..255 must be rejected")
        ex.require(not sep_with_data, "encode: separator with data must be rejected")
        if bad_key or sep_with_data:
            return ex.observe(enc)
        ref = tlv8_encode(items)
        ex.require(rope_eq(enc, ref), "encode: equals the canonical TLV8 encoding")
        # a conformant peer's encoding decodes to the items (equal-typed neighbours kept apart)
        distinct = all(decide(a != b) for a, b in zip(ts, ts[1:]))
        for what, blob in (("decode(encode(x))", enc), ("decode(reference-encode(x))", ref)):
            dec = M.TLV.decode_bytes(blob)
            if distinct:
                ex.tag("distinct-neighbours")
                ok = len(dec) == m
                ex.require(ok, "%s: same number of items" % what)
                if ok:
                    for d, (t, v) in zip(dec, items):
                        ex.require(d[0] == t, "%s: same item type" % what)
                        ex.require(rope_eq(d[1], v), "%s: same item value" % what)
        return ex.observe(enc)
    return h


def filter_unit(M, N):
    """expected-types filter: items before the first fragment whose type is not expected"""
    def h(ex):
        data = ex.fresh_bytes("data", 0, N)
        k = ex.fresh_int("nexp", 0, 2)
        exp = [ex.fresh_int("e%d" % i, 0, 255) for i in range(2)]
        expected = exp[:2] if decide(k == 2) else exp[:1] if decide(k == 1) else []
        # reference: scan, stop before the first unexpected type (before looking at its length)
        rope_ = as_rope(data)
        n = rope_.length()
        pos = 0
        frags = []
        trunc = False
        while decide(pos < n):
            t = rope_[pos]
            if expected and not any(decide(t == e) for e in expected):
                ex.tag("stopped-at-unexpected")
                break
            if decide(pos + 2 > n):
                trunc = True
                break
            ln = rope_[simp(pos + 1)]
            if decide(pos + 2 + ln > n):
                trunc = True
                break
            frags.append((t, ln, rope_.slice(simp(pos + 2), simp(pos + 2 + ln))))
            pos = simp(pos + 2 + ln)
        try:
            got = M.TLV.decode_bytes(data, expected=list(expected))
        except M.TlvParseException:
            ex.require(trunc, "filter: TlvParseException only for truncated input")
            return ex.observe("TlvParseException")
        ex.require(not trunc, "filter: truncated input must raise TlvParseException")
        if trunc:
            return ex.observe(got)
        want = tlv8_merge(frags)
        ok = len(got) == len(want)
        ex.require(ok, "filter: number of items equals reference")
        if ok:
            for g, w in zip(got, want):
                ex.require(g[0] == w[0], "filter: item type")
                ex.require(rope_eq(g[1], w[2]), "filter: item value")
        return ex.observe(got)
    return h


def validate_key_unit(M):
    def h(ex):
        k = ex.fresh_int("k", -1000, 1000)
        r = M.TLV.validate_key(k)
        ex.require(r == (decide(k >= 0) and decide(k <= 255)), "validate_key accepts exactly 0..255")
        return ex.observe(bool(r))
    return h


# ------------------------------------------------------------------ build
QUICK_LENGTHS = (0, 1, 255, 256, 511)
FULL_LENGTHS = (0, 1, 2, 254, 255, 256, 257, 509, 510, 511, 765, 766)
M3_LENGTHS = (0, 1, 255, 256, 511, 766)


def build(tier, mutate=None):
    T = copies(mutate)
    R = real_tlv
    units = []

    def add(name, f, *args, **kw):
        units.append(Unit(name, f(T, *args), f(R, *args), **kw))

    N = 10 if tier == "quick" else 15
    if tier == "canary":
        N = 6
    add("totality/N<=%d" % N, totality, N, bounds={"max_input_bytes": N}, split=True,
        regions=["parse-error", "two-items", "non-empty-value"])
    add("validate_key", validate_key_unit, bounds={"key": "-1000..1000"})
    add("filter/N<=%d" % (6 if tier != "thorough" else 9), filter_unit, 6 if tier != "thorough" else 9, split=True,
        bounds={"max_input_bytes": 6 if tier != "thorough" else 9, "expected": "0..2 symbolic types"},
        regions=["stopped-at-unexpected"])
    if tier == "canary":
        combos = [(1,), (256,), (0, 1), (255, 1)]
    elif tier == "quick":
        combos = [(L,) for L in FULL_LENGTHS] + list(itertools.product(QUICK_LENGTHS, repeat=2))
    else:
        combos = ([(L,) for L in FULL_LENGTHS] + list(itertools.product(FULL_LENGTHS, repeat=2))
                  + list(itertools.product(M3_LENGTHS, repeat=3)))
    for c in combos:
        add("encode/" + ",".join(map(str, c)), encode_unit, c, bounds={"lengths": list(c), "types": "0..255 symbolic"})
    add("encode-key-range/1", encode_unit, (1,), -3, 258, bounds={"lengths": [1], "types": "-3..258 symbolic"},
        regions=["ValueError"])
    CL = client_copy(T, mutate)
    for r, total in ([(2, 40)] if tier == "canary" else [(2, 40), (3, 300)] if tier == "quick" else [(2, 40), (3, 300), (4, 300), (3, 600)]):
        units.append(Unit("ble-reassembly/pieces=%d,reply=%d bytes" % (r, total), reassembly_unit(T, CL, r, total), reassembly_unit(R, real_client, r, total),
                          split=True, bounds={"fragments": r, "reply_bytes": total, "split positions": "all (symbolic), empty fragments included"},
                          regions=["empty-fragment"]))
    return units


CANARIES = [
    ("fragment size 255 -> 256", {"aiohomekit.protocol.tlv": lambda s: s.replace("if len(value) > 255:\n                    length = 255", "if len(value) > 256:\n                    length = 256")}, lambda n: n.startswith("encode/256")),
    ("merge of equal-typed neighbours dropped", {"aiohomekit.protocol.tlv": lambda s: s.replace("if len(result) > 0 and result[-1][0] == key:", "if False:")}, lambda n: n.startswith("encode/256")),
    ("length check dropped", {"aiohomekit.protocol.tlv": lambda s: s.replace("if length != len(value):", "if False:")}, lambda n: n.startswith("totality")),
    ("fragment acknowledgement carries data", {CLIENT: lambda s: s.replace("next_write = bytes([TLV.kTLVType_FragmentData, 0])", "next_write = bytes([TLV.kTLVType_FragmentData, 1, 0])")}, lambda n: n.startswith("ble-reassembly")),
    ("separator emitted with length 1", {"aiohomekit.protocol.tlv": lambda s: s.replace("            if len(value) == 0:\n                result.append(key)\n                result.append(0)", "            if len(value) == 0:\n                result.append(key)\n                result.append(1)")}, lambda n: n.startswith("encode/0,1")),
]

ASSUMPTIONS = [
    "CPython semantics of the bytearray/bytes operations the rope proxies mirror (validated by the model-based differential against the real library on sampled paths, not proved)",
    "item contents are opaque arrays: a proved equality holds for every content; types are symbolic 0..255",
    "TLV.to_string (eager debug formatting inside decode/encode) runs as real code; its two name tables return a placeholder for a symbolic key and formatted strings containing symbolic values are not inspected",
    "inputs longer than the stated bound and item lists longer than the stated skeletons are outside the claim",
]


def main(tier, seed, only=None):
    units = common.filter_units(build(tier), only)
    can = None
    if tier == "thorough" and only is None:
        can = lambda: run_canaries(lambda mut: build("canary", mut), CANARIES, seed)
    return check_property(
        PROP, units, tier, seed,
        explanation="TLV.decode_bytes / encode_list / validate_key of the real tlv.py executed symbolically: decoder totality and "
                    "value-length soundness for every byte string up to the bound; encode_list == reference TLV8 encoder, "
                    "decode(encode(x)) == x and decode(ref_encode(x)) == x for symbolic types and opaque contents at boundary "
                    "lengths; expected-types filter against a reference scan.",
        assumptions=ASSUMPTIONS, stubs=["K_TLV_TYPE_NAMES/K_TLV_ERROR_NAMES -> placeholder for symbolic keys (formatting only; TLV.to_string itself runs)", "logger -> no-op"],
        bounds={"tier": tier}, canaries=can, design_ref="DESIGN.md section 5, C15",
        extra_checks=[] if only else [("ble-reassembly: too many fragments (concrete side check)", lambda: too_many_fragments(real_client))])


def replay(doc):
    return common.std_replay(PROP, build("thorough"), doc)
