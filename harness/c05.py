"""C05 - encrypted IP session framing: exact outbound, segmentation-proof inbound.
Real code: SecureHomeKitProtocol.send_bytes / data_received (ip/connection.py), PACK_NONCE."""
import aiohomekit.controller.ip.connection as real_conn
from chacha20poly1305_reuseable import ChaCha20Poly1305Reusable

from symx import Unit, as_rope, check_property, decide, drive, int_to_rope, load, rope_eq, run_canaries, slen
from symx.ideal import World, ideal_aead_class
from symx.rope import SymBytes

from . import common
from .refs import rope

PROP = "C05"
MOD = "aiohomekit.controller.ip.connection"


def copies(mutate=None):
    mutate = mutate or {}
    return load(MOD, src_transform=mutate.get(MOD))


def le(v, n):
    return int_to_rope(v, n, "little")


class Env:
    """the two worlds a harness can run in: module copy + ideal AEAD, or real library + real AEAD"""

    def __init__(self, M, ex):
        self.M, self.ex = M, ex
        self.sym = not getattr(ex, "concrete", False)
        if self.sym:
            self.aead = ideal_aead_class(M.DecryptionError)
            self.W = World.get()

    def key(self, name):
        return self.W.term(("key", name), 32) if self.sym else (name.encode() * 32)[:32]

    def encryptor(self, key):
        return self.aead(key) if self.sym else self.M.ChaCha20Poly1305Encryptor(key)

    def decryptor(self, key):
        return self.aead(key) if self.sym else self.M.ChaCha20Poly1305Decryptor(key)

    def ba(self):
        b = self.M.__builtins__
        return (b["bytearray"] if isinstance(b, dict) else b.bytearray)()

    def b(self, x):
        """what the code under test is handed: ropes symbolically, plain bytes on the real library"""
        return x if self.sym else bytes(as_rope(x).concrete())

    def nonce(self, counter):
        """HAP: 4 zero bytes followed by the 64-bit little-endian frame counter"""
        return rope(b"\x00\x00\x00\x00", le(counter, 8))


class Recorder:
    """replaces InsecureHomeKitProtocol.data_received / _send_lines on the class under test"""

    def __init__(self, M):
        self.M = M
        self.delivered = []
        self.sent = []

    def __enter__(self):
        cls = self.M.InsecureHomeKitProtocol
        self.saved = (cls.data_received, cls._send_lines)
        rec = self

        def data_received(self_, d):
            rec.delivered.append(d)

        async def _send_lines(self_, payload):
            rec.sent.append(list(payload))
            return "RESPONSE"

        cls.data_received, cls._send_lines = data_received, _send_lines
        return self

    def __exit__(self, *a):
        cls = self.M.InsecureHomeKitProtocol
        cls.data_received, cls._send_lines = self.saved


class FakeConnection:
    name = "harness"
    host = "harness"

    def __getattr__(self, k):
        return lambda *a, **kw: None


class FakeTransport:
    def __init__(self):
        self.closed = False

    def close(self):
        self.closed = True

    def abort(self):
        self.closed = True

    def write_eof(self):
        pass

    def is_closing(self):
        return self.closed


def new_protocol(env, a2c_key, c2a_key, a2c0=0, c2a0=0):
    M = env.M
    p = object.__new__(M.SecureHomeKitProtocol)
    p._incoming_buffer = env.ba()
    p.a2c_counter, p.c2a_counter = a2c0, c2a0
    p.a2c_key, p.c2a_key = a2c_key, c2a_key
    p.encryptor = env.encryptor(c2a_key)
    p.decryptor = env.decryptor(a2c_key)
    p.result_cbs = []
    p.connection = FakeConnection()
    p.transport = FakeTransport()
    return p


# ------------------------------------------------------------------ inbound
def inbound(M, F, R, corrupt=None):
    """F genuine frames with arbitrary plaintext lengths 0..1024, the stream split at R-1 arbitrary
    cut points.  corrupt = None | 'body' | 'length': frame j (symbolic) is not the genuine one."""
    def h(ex):
        env = Env(M, ex)
        key = env.key("a2c")
        acc = env.encryptor(key)
        j = ex.fresh_int("j", 0, F - 1) if corrupt else None
        flip = ex.fresh_int("flip", 0, 2000) if corrupt == "body" else None
        frames = []
        stream = rope()
        for i in range(F):
            pt = ex.fresh_bytes("pt%d" % i, 0, 1024, opaque=True)
            L = slen(pt)
            hdr = le(L, 2)
            ct = acc.encrypt(env.b(hdr), env.b(env.nonce(i)), env.b(pt))
            wire_hdr, wire_ct = hdr, ct
            if corrupt == "body" and decide(j == i):
                # any other byte string of the same length under the same header
                if env.sym:
                    wire_ct = env.W.term(("forged", i), L + 16)
                else:
                    wire_ct = bytearray(ct)
                    wire_ct[flip % len(wire_ct)] ^= 1 + (flip % 255)
            if corrupt == "length" and decide(j == i):
                L2 = ex.fresh_int("badlen", 0, 65535)  # any other 16-bit value, also one announcing more than a full frame
                ex.assume(L2 != L)
                wire_hdr = le(L2, 2)
            frames.append((pt, L))
            stream = stream + wire_hdr + wire_ct
        total = slen(stream)
        cuts = [0]
        for k in range(R - 1):
            c = ex.fresh_int("cut%d" % k, 0, 6000)
            ex.assume(c >= cuts[-1])
            ex.assume(c <= total)
            cuts.append(c)
        cuts.append(total)
        err = None
        with Recorder(M) as rec:
            p = new_protocol(env, key, env.key("c2a"))
            for a, b in zip(cuts, cuts[1:]):
                try:
                    p.data_received(env.b(as_rope(stream).slice(a, b)))
                except RuntimeError:
                    err = "RuntimeError"
                    break  # asyncio closes the transport: no further reads are delivered
                if p.transport.closed:
                    err = "closed"
                    break
        delivered = rec.delivered
        good = F if not corrupt else j  # frames that must be delivered
        if not corrupt:
            ex.require(err is None, "inbound: genuine stream raises nothing")
            ex.require(len(delivered) == F, "inbound: every frame delivered exactly once")
            ex.require(p.a2c_counter == F, "inbound: receive counter equals number of frames")
            ex.require(slen(p._incoming_buffer) == 0, "inbound: buffer empty at the end")
        else:
            ex.tag("corrupt-" + corrupt)
            ex.require(len(delivered) == good, "inbound: exactly the frames before the bad one are delivered")
            if corrupt == "body":
                ex.require(err is not None, "inbound: a frame failing authentication ends the session")
            else:
                # a wrong length prefix either fails authentication or leaves the receiver waiting for bytes
                ex.require(err is not None or decide(slen(p._incoming_buffer) > 0),
                           "inbound: wrong length prefix is never delivered")
        for d, (pt, L) in zip(delivered, frames):
            ex.require(rope_eq(d, pt), "inbound: delivered plaintext equals what the accessory sent, in order")
        if any(decide(c > 0) and decide(c < total) for c in cuts[1:-1]):
            ex.tag("interior-cut")
        if any(decide(L == 1024) for _, L in frames):
            ex.tag("full-frame")
        if any(decide(L == 0) for _, L in frames):
            ex.tag("empty-frame")
        return ex.observe([err, len(delivered), [slen(d) for d in delivered]])
    return h


def big_read(M, F):
    """a snapshot-sized response: F full frames and a last one of arbitrary length arrive in ONE read (asyncio hands over up to
    256 KiB per call) - every frame is delivered, nothing is refused for its size"""
    def h(ex):
        env = Env(M, ex)
        key = env.key("a2c")
        acc = env.encryptor(key)
        stream = rope()
        pts = []
        for i in range(F + 1):
            pt = ex.fresh_bytes("pt%d" % i, 1024 if i < F else 0, 1024, opaque=True)
            hdr = le(slen(pt), 2)
            stream = stream + hdr + acc.encrypt(env.b(hdr), env.b(env.nonce(i)), env.b(pt))
            pts.append(pt)
        err = None
        with Recorder(M) as rec:
            p = new_protocol(env, key, env.key("c2a"))
            try:
                p.data_received(env.b(stream))
            except RuntimeError:
                err = "RuntimeError"
        ex.require(err is None, "inbound: a large read of genuine frames raises nothing")
        ex.require(len(rec.delivered) == F + 1 and p.a2c_counter == F + 1, "inbound: every frame of a large read is delivered exactly once")
        ex.require(slen(p._incoming_buffer) == 0, "inbound: buffer empty at the end")
        return ex.observe([err, len(rec.delivered)])
    return h


# ------------------------------------------------------------------ outbound
def outbound(M, max_len):
    """send_bytes(payload) for every payload length 0..max_len, from an arbitrary send counter"""
    def h(ex):
        env = Env(M, ex)
        c2a = env.key("c2a")
        payload = ex.fresh_bytes("payload", 0, max_len, opaque=True)
        c0 = ex.fresh_int("c2a0", 0, 2 ** 40)
        n = slen(payload)
        with Recorder(M) as rec:
            p = new_protocol(env, env.key("a2c"), c2a, c2a0=c0)
            res = drive(p.send_bytes(payload))
        ex.require(res == "RESPONSE" and len(rec.sent) == 1, "outbound: the whole request is handed over in one call")
        wire = rope(*rec.sent[0])
        # reference accessory: LE16 length, then L+16 bytes, aad = the two length bytes, nonce = counter
        acc = env.decryptor(c2a)
        pos, i, got = 0, 0, rope()
        total = slen(wire)
        ok = True
        while decide(pos < total):
            if decide(pos + 2 > total):
                ok = False
                break
            hdr = wire.slice(pos, pos + 2)
            L = hdr[0] + 256 * hdr[1]
            if decide(pos + 2 + L + 16 > total) or decide(L > 1024):
                ok = False
                break
            try:
                pt = acc.decrypt(env.b(hdr), env.b(env.nonce(c0 + i)), env.b(wire.slice(pos + 2, pos + 2 + L + 16)))
            except M.DecryptionError:
                ok = False
                break
            ex.require(slen(pt) == L, "outbound: frame plaintext has the announced length")
            if decide(pos + 2 + L + 16 < total):
                ex.require(L == 1024, "outbound: only the last frame may be shorter than 1024 bytes")
            got = got + pt
            pos = pos + 2 + L + 16
            i += 1
        ex.require(ok, "outbound: a conformant accessory decrypts every frame (length prefix as AAD, counter nonce, <=1024)")
        ex.require(rope_eq(got, payload), "outbound: frames decrypt, in order, to exactly the request bytes")
        ex.require(p.c2a_counter == c0 + i, "outbound: send counter advanced once per frame")
        if i >= 2:
            ex.tag("multi-frame")
        if decide(n > 0) and decide(n % 1024 == 0):
            ex.tag("exact-multiple")
        return ex.observe([i, n])
    return h


class LoopPatch:
    """SecureHomeKitProtocol.__init__ calls asyncio.get_running_loop(): give it a stand-in"""

    def __init__(self, M):
        self.M = M

    def __enter__(self):
        import asyncio
        self.saved = self.M.asyncio

        class Facade:
            def __getattr__(self, k):
                return getattr(asyncio, k)

            def get_running_loop(self):
                return object()

        self.M.asyncio = Facade()

    def __exit__(self, *a):
        self.M.asyncio = self.saved
        return False


def two_sessions(M):
    """sessions are independent: bytes left undecoded in one session (cut mid-frame, then dropped) never reach the next one;
    protocols are created through the real constructor"""
    def h(ex):
        env = Env(M, ex)
        k1, k2 = env.key("a2c-session1"), env.key("a2c-session2")
        pt1 = ex.fresh_bytes("pt1", 1, 64, opaque=True)
        pt2 = ex.fresh_bytes("pt2", 1, 64, opaque=True)

        def frame(key, pt):
            hdr = le(slen(pt), 2)
            return rope(hdr, env.encryptor(key).encrypt(env.b(hdr), env.b(env.nonce(0)), env.b(pt)))

        f1, f2 = frame(k1, pt1), frame(k2, pt2)
        cut = ex.fresh_int("cut", 1, 200)
        ex.assume(cut < slen(f1))
        saved_enc = (M.ChaCha20Poly1305Encryptor, M.ChaCha20Poly1305Decryptor)
        if env.sym:
            M.ChaCha20Poly1305Encryptor = M.ChaCha20Poly1305Decryptor = env.aead
        err = None
        try:
            with LoopPatch(M), Recorder(M) as rec:
                p1 = M.SecureHomeKitProtocol(FakeConnection(), env.b(k1) if not env.sym else k1, env.b(env.key("c2a-1")) if not env.sym else env.key("c2a-1"))
                ex.require(p1.a2c_counter == 0 and p1.c2a_counter == 0, "a new session starts both frame counters at 0")
                p1.transport = FakeTransport()
                p1.data_received(env.b(as_rope(f1).slice(0, cut)))  # the read ends inside the frame, then the connection drops
                n1 = len(rec.delivered)
                p2 = M.SecureHomeKitProtocol(FakeConnection(), env.b(k2) if not env.sym else k2, env.b(env.key("c2a-2")) if not env.sym else env.key("c2a-2"))
                p2.transport = FakeTransport()
                try:
                    p2.data_received(env.b(f2))
                except RuntimeError:
                    err = "RuntimeError"
                delivered = rec.delivered[n1:]
        finally:
            M.ChaCha20Poly1305Encryptor, M.ChaCha20Poly1305Decryptor = saved_enc
        ex.require(n1 == 0, "an incomplete frame is not delivered")
        ex.require(err is None and len(delivered) == 1, "the next session decodes its own first frame (nothing is carried over from the previous session)")
        if len(delivered) == 1:
            ex.require(rope_eq(delivered[0], pt2), "the next session delivers exactly what its accessory sent")
        return ex.observe([err, len(delivered)])
    return h


def nonce_layout(M):
    """PACK_NONCE(counter) == 4 zero bytes + LE64(counter) for every 64-bit counter"""
    def h(ex):
        c = ex.fresh_int("counter", 0, 2 ** 64 - 1)
        got = M.PACK_NONCE(c)
        ex.require(rope_eq(got, rope(b"\x00\x00\x00\x00", le(c, 8))), "nonce: 4 zero bytes followed by the LE64 counter")
        return ex.observe(got)
    return h


# ------------------------------------------------------------------ build
def build(tier, mutate=None):
    C = copies(mutate)
    Rm = real_conn
    units = []

    def add(name, f, *args, **kw):
        units.append(Unit(name, f(C, *args), f(Rm, *args), **kw))

    if tier == "canary":
        shapes, out_max, corr = [(2, 2)], 2049, [(2, 2)]
    elif tier == "quick":
        shapes, out_max, corr = [(1, 2), (1, 3), (2, 2), (2, 3)], 5 * 1024 + 1, [(2, 2)]
    else:
        shapes, out_max, corr = [(1, 2), (1, 3), (1, 4), (2, 2), (2, 3), (2, 4), (3, 2), (3, 3), (4, 2)], 8 * 1024 + 1, [(2, 2), (3, 2), (3, 3)]
    for F, R in shapes:
        add("inbound/F=%d,R=%d" % (F, R), inbound, F, R, None, split=True,
            bounds={"frames": F, "reads": R, "plaintext_len": "0..1024 each (symbolic)", "cuts": "all positions (symbolic)"},
            regions=["interior-cut", "full-frame", "empty-frame"])
    for F, R in corr:
        add("inbound-forged-body/F=%d,R=%d" % (F, R), inbound, F, R, "body", split=True,
            bounds={"frames": F, "reads": R, "forged": "any one frame replaced by a different byte string of the same length"},
            regions=["corrupt-body"])
        add("inbound-wrong-length/F=%d,R=%d" % (F, R), inbound, F, R, "length", split=True,
            bounds={"frames": F, "reads": R, "forged": "any one length prefix replaced by another value 0..65535"},
            regions=["corrupt-length"])
    add("outbound/n<=%d" % out_max, outbound, out_max, split=True,
        bounds={"payload_len": "0..%d (symbolic)" % out_max, "send_counter": "0..2^40 (symbolic)"},
        regions=["multi-frame", "exact-multiple"])
    add("inbound/one-read-of-%d-frames" % (66 + 1), big_read, 66, bounds={"frames": "66 full frames + one of 0..1024 bytes (symbolic)", "reads": 1, "bytes": "> 65553"})
    add("nonce-layout", nonce_layout, bounds={"counter": "0..2^64-1"})
    add("inbound/two-sessions", two_sessions, bounds={"leftover": "session 1 cut at any position inside its first frame", "plaintexts": "1..64 bytes each"})
    return units


CANARIES = [
    ("frame size 1024 -> 1025", {MOD: lambda s: s.replace("current = payload[:1024]\n            payload = payload[1024:]", "current = payload[:1025]\n            payload = payload[1025:]")}, lambda n: n.startswith("outbound")),
    ("exp_length off by one", {MOD: lambda s: s.replace("exp_length = BLOCK_SIZE_LEN + block_length + TAG_LENGTH", "exp_length = BLOCK_SIZE_LEN + block_length + TAG_LENGTH - 1")}, lambda n: n.startswith("inbound/")),
    ("receive counter not advanced", {MOD: lambda s: s.replace("            self.a2c_counter += 1\n", "            pass\n")}, lambda n: n.startswith("inbound/")),
    ("send counter not advanced", {MOD: lambda s: s.replace("            self.c2a_counter += 1\n", "            pass\n")}, lambda n: n.startswith("outbound")),
    ("decrypt failure swallowed", {MOD: lambda s: s.replace('raise RuntimeError("Could not decrypt block") from err', "continue")}, lambda n: n.startswith("inbound-forged")),
    ("wait condition uses <=", {MOD: lambda s: s.replace("if incoming_len < exp_length:", "if incoming_len <= exp_length:")}, lambda n: n.startswith("inbound/")),
]

ASSUMPTIONS = [
    "ideal AEAD (DESIGN.md 4.2): decrypt succeeds iff (key, nonce, aad, ciphertext) are exactly those of an earlier encrypt; a forged frame is 'any byte string other than the genuine one' and is assumed to be rejected by the real ChaCha20-Poly1305",
    "plaintext contents are opaque (content-independent); frame lengths, cut positions, send counter symbolic",
    "InsecureHomeKitProtocol.data_received/_send_lines replaced by recorders (the HTTP layer is C07); objects built with object.__new__",
    "a RuntimeError escaping data_received closes the transport (asyncio contract), so no further read is delivered",
    "streams longer than the stated number of frames/reads are outside; a corrupted length prefix that makes the receiver wait forever is accepted as 'not delivered'",
]


def main(tier, seed, only=None):
    units = common.filter_units(build(tier), only)
    can = None
    if tier == "thorough" and only is None:
        can = lambda: run_canaries(lambda mut: build("canary", mut), CANARIES, seed)
    return check_property(
        PROP, units, tier, seed,
        explanation="SecureHomeKitProtocol.data_received fed with every split of a stream of F frames (plaintext lengths and cut "
                    "positions symbolic) delivers exactly the accessory's plaintexts in order; forged bodies / wrong length "
                    "prefixes are never delivered and end the session; send_bytes for every payload length is decoded by a "
                    "reference accessory to exactly the payload with <=1024-byte frames and counter nonces.",
        assumptions=ASSUMPTIONS, stubs=["ChaCha20Poly1305Encryptor/Decryptor -> ideal AEAD", "InsecureHomeKitProtocol.data_received -> recorder",
                                        "InsecureHomeKitProtocol._send_lines -> recorder", "logger -> no-op"],
        bounds={"tier": tier}, canaries=can, design_ref="DESIGN.md section 5, C05")


def replay(doc):
    return common.std_replay(PROP, build("thorough"), doc)
