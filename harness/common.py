"""shared helpers for harness modules"""
import sys

from symx import run as R
from symx.core import PathAbort


def filter_units(units, only):
    return [u for u in units if only is None or only in u.name]


def std_replay(prop, units, doc):
    """re-run a recorded counterexample on the real library; exit 1 if it still fails"""
    u = next((u for u in units if u.name == doc["unit"]), None)
    if u is None or u.real is None:
        print("no unit %r with a concrete harness" % doc["unit"])
        return 2
    failed, exc, obs, cx = R.run_real(u, R.dec_inputs(doc["inputs"]))
    print("unit", u.name, "failed obligations:", failed, "exception:", exc, "observation:", obs)
    if failed or (exc and exc != "PathAbort"):
        print("VIOLATION property=%s replay=%s" % (prop, "(replayed)"))
        return 1
    print("does not reproduce on the current tree")
    return 0


def keep_tlv_to_string(T):
    """TLV.to_string is evaluated eagerly for debug logging inside decode_bytearray/encode_list, so it runs as real code;
    only its two name tables (values used for formatting only) answer a symbolic key with a placeholder"""
    from symx.rope import FmtDict
    T.K_TLV_TYPE_NAMES = FmtDict(T.K_TLV_TYPE_NAMES)
    T.K_TLV_ERROR_NAMES = FmtDict(T.K_TLV_ERROR_NAMES)
