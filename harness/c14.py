"""C14 - values prepared for writing respect format, range and step.
Real code: check_convert_value (model/characteristics/characteristic.py), Service.build_update.
The real function runs with Decimal/localcontext replaced by the fixed-point decimal model (symx/decmodel.py)."""
import decimal
from fractions import Fraction as F

import aiohomekit.model.characteristics.characteristic as real_char
import aiohomekit.model.services.service as real_service
from aiohomekit.exceptions import FormatError

from symx import Unit, check_property, decide, load, run_canaries
from symx import decmodel as DM
from symx.core import SymInt
from symx.decmodel import SymDec

from . import common

PROP = "C14"
MOD = "aiohomekit.model.characteristics.characteristic"
SVC = "aiohomekit.model.services.service"
INT_FORMATS = ("uint8", "uint16", "uint32", "uint64", "int")


def copies(mutate=None):
    mutate = mutate or {}
    C = load(MOD, src_transform=mutate.get(MOD),
             patches=dict(Decimal=SymDec.make, localcontext=DM.localcontext, ROUND_HALF_UP=DM.ROUND_HALF_UP),
             builtins_extra={"float": DM.float_conv})
    C.service_module = load(SVC, deps={MOD: C}, src_transform=mutate.get(SVC))  # Service.build_update on top of the copy
    return C


class _StubService:
    class accessory:
        aid = 1

        @staticmethod
        def get_next_id():
            return 9


def Char(fmt, mn, mx, step, M=None):
    """the library's own Characteristic - of the copy under analysis, or of the installed module - so that whatever the class
    defines besides the four declared attributes (properties, per-object caches) is there; only the service is a stand-in.
    The type is a vendor uuid without an entry in the characteristic tables, so the declared metadata are exactly the arguments."""
    mod = M if M is not None else real_char
    return mod.Characteristic(_StubService(), "0000FF01-0000-1000-8000-0026BB765291", iid=9, format=fmt, perms=["pr", "pw"],
                              min_value=mn, max_value=mx, min_step=step, value=None)


# ------------------------------------------------------------------ number adapters (exact rationals in both modes)
def Q(x, sym=False):
    """exact rational view of a library-side number"""
    if sym and not isinstance(x, (SymDec, SymInt)):
        return SymDec.make(x)
    if isinstance(x, SymDec):
        return SymDec(x.N, x.D)
    if isinstance(x, SymInt):
        return SymDec(x, 1)
    if isinstance(x, bool):
        return F(int(x))
    if isinstance(x, (int, float, F, decimal.Decimal, str)):
        return F(x) if not isinstance(x, float) else F(x)
    raise TypeError(type(x))


def is_int(q):
    return q.is_integer() if isinstance(q, SymDec) else q.denominator == 1


def rhu(q):
    """nearest integer, ties away from zero"""
    if isinstance(q, SymDec):
        return q.to_integral_value(DM.ROUND_HALF_UP)
    n = abs(q)
    r = F(int(n) + (1 if n - int(n) >= F(1, 2) else 0))
    return r if q >= 0 else -r


def mk(sym, v):
    return SymDec.make(v) if sym else F(v)


def tolerance(mn, mx, vmax):
    """six significant digits at the largest magnitude in play"""
    b = max([abs(F(x)) for x in (mn, mx) if x is not None] + [F(vmax), F(1)])
    e = 0
    while F(10) ** (e + 1) <= b:
        e += 1
    return 2 * F(10) ** (e - 5)


def convert_unit(M, fmt, mn, mx, step, kind, lo, hi):
    """kind 'int': every integer input in lo..hi; kind 'dec': every decimal n/10^9 in lo..hi"""
    integer_exact = fmt in INT_FORMATS and kind == "int"
    tol = F(0) if integer_exact else tolerance(mn, mx, max(abs(lo), abs(hi)))

    def h(ex):
        sym = not getattr(ex, "concrete", False)
        DM.reset()
        if kind == "int":
            n = ex.fresh_int("v", lo, hi)
            val = n
            vq = SymDec(n, 1) if sym else F(n)
        else:
            n = ex.fresh_int("v_e9", lo * 10 ** 9, hi * 10 ** 9)
            if sym:
                val = SymDec(n, 10 ** 9)
                vq = SymDec(n, 10 ** 9)
            else:
                val = "%dE-9" % n  # decimal reading of the input, as a numeric string
                vq = F(n, 10 ** 9)
        ch = Char(fmt, mn, mx, step, M)
        try:
            out = M.check_convert_value(val, ch)
        except M.FormatError:
            ex.require(False, "convert: a convertible number must not be refused")
            return ex.observe("FormatError")
        with DM.exact():
            R = Q(out, sym)
            # type
            if fmt in INT_FORMATS:
                ex.require(isinstance(out, (int, SymInt)) and not isinstance(out, bool), "convert: integer formats yield integers")
            else:
                ex.require(isinstance(out, (float, DM.SymFloat)), "convert: float format yields a float")
            # clamp (exact)
            C = vq
            if mn is not None and decide(C < mk(sym, mn)):
                C = mk(sym, mn)
                ex.tag("clamped-low")
            if mx is not None and decide(C > mk(sym, mx)):
                C = mk(sym, mx)
                ex.tag("clamped-high")
            T = mk(sym, tol)
            if step:
                off = mk(sym, mn if mn is not None else 0)
                st = mk(sym, step)
                x = (R - off) / st
                if integer_exact:
                    ex.require(is_int(x), "convert: result lies on the step grid counted from the minimum")
                else:
                    kk = rhu(x)
                    ex.require(abs(R - (off + kk * st)) <= T, "convert: result lies on the step grid (to six significant digits)")
                d = abs(R - C)
                ex.require(d * 2 <= st + T * 2, "convert: result is a grid point nearest to the clamped input")
                if decide(C - off >= 0) and decide(abs(((C - off) / st) * 2 - rhu(((C - off) / st) * 2)) == 0) and not decide(is_int((C - off) / st)):
                    # the clamped input is exactly half way between two grid points
                    ex.tag("exact-tie")
                    ex.require(R >= C - T, "convert: an exact tie goes upward")
                on_grid = mx is not None and (F(mx) - F(mn if mn is not None else 0)) % F(step) == 0
                if on_grid:
                    ex.require(R <= mk(sym, mx) + T, "convert: result within the range (maximum is on the grid)")
                if mn is not None:
                    ex.require(R >= mk(sym, mn) - T, "convert: result not below the minimum")
            else:
                if fmt in INT_FORMATS:
                    ex.require(abs(R - C) * 2 <= mk(sym, 1), "convert: nearest integer to the clamped input")
                else:
                    ex.require(abs(R - C) <= T if not integer_exact else R == C, "convert: value preserved (to six significant digits)")
                if mx is not None:
                    ex.require(R <= mk(sym, mx) + T + (mk(sym, F(1, 2)) if fmt in INT_FORMATS else 0), "convert: result within the range")
                if mn is not None:
                    ex.require(R >= mk(sym, mn) - T - (mk(sym, F(1, 2)) if fmt in INT_FORMATS else 0), "convert: result not below the minimum")
        # observation: the decimal value of the result
        if sym:
            o = ex.observe([R.N, R.D])
            f = F(o[0], o[1])
        else:
            ex.observe(None)
            f = F(out)
        return ["int", int(f)] if fmt in INT_FORMATS else ["float", repr(float(f))]
    return h


def build_update_unit(M, real):
    """Service.build_update prepares every value with check_convert_value - also a value equal to the one the characteristic
    currently holds (what the accessory reported need not be a valid prepared value)"""
    Service = real_service.Service if real else M.service_module.Service

    def h(ex):
        fmt, mn, mx, step = ex.choice("config", [("int", -100, 100, 10), ("uint8", 0, 100, 1), ("int", None, None, 5)])
        n = ex.fresh_int("v", -300, 300)
        stored = ex.choice("stored_value", ["the-written-value", "another-value", "none"])
        ch = Char(fmt, mn, mx, step, None if real else M)
        ch._value = {"the-written-value": n, "another-value": 7, "none": None}[stored]

        class FakeService:
            accessory = type("A", (), {"aid": 1})

            def __getitem__(self, k):
                return ch

        got = Service.build_update(FakeService(), {"type": n})
        want = M.check_convert_value(n, ch)
        ex.tag(stored)
        ex.require(len(got) == 1 and got[0][0] == 1 and got[0][1] == 9, "build_update: one (aid, iid, value) entry per payload item")
        ex.require(got[0][2] == want, "build_update: the value is prepared with check_convert_value, whatever the characteristic currently holds")
        return ex.observe("ok")
    return h


CHANGES = [("uint8", (0, 100, 1), (0, 100, 5)), ("int", (0, 100, 10), (5, 100, 10)), ("int", (0, 100, 10), (0, 50, 10)),
           ("uint8", (0, 100, 5), (0, 100, None)), ("int", (None, None, None), (0, 100, 10)), ("int", (-100, 100, 10), (-95, 95, 5))]


def rewrite_unit(M):
    """two writes to ONE characteristic object whose declared metadata are reassigned in between (the BLE signature read assigns
    minValue / maxValue / minStep on an existing object): the second value is prepared exactly as on a fresh characteristic
    that declares the new metadata - nothing remembered from the first write may leak into it"""
    def h(ex):
        DM.reset()
        fmt, a, b = ex.choice("change", CHANGES)
        v1 = ex.fresh_int("v1", -200, 200)
        v2 = ex.fresh_int("v2", -200, 200)
        ch = Char(fmt, a[0], a[1], a[2], M)
        M.check_convert_value(v1, ch)
        ch.minValue, ch.maxValue, ch.minStep = b
        got = M.check_convert_value(v2, ch)
        want = M.check_convert_value(v2, Char(fmt, b[0], b[1], b[2], M))
        ex.require(got == want, "convert: a write after the declared metadata changed is prepared with the new metadata")
        return ex.observe("ok")
    return h


# ------------------------------------------------------------------ concrete side checks (no solver)
GARBAGE = ["abc", "", None, "1,5", "12abc", [1, 2], {"a": 1}, object(), "--1", b"12", "0x10"]
NONFINITE = ["nan", "inf", "-inf", "NaN", "Infinity", float("nan"), float("inf"), "sNaN"]
TRUE_SPELLINGS = ["y", "yes", "t", "true", "on", "1", "Y", "TRUE", True, 1]
FALSE_SPELLINGS = ["n", "no", "f", "false", "off", "0", "N", "False", False, 0]


def side_unconvertible():
    """inputs that cannot be converted must fail with FormatError and nothing else (real function, concrete)"""
    f = real_char.check_convert_value
    viol, n = [], 0
    configs = [Char("float", None, None, None), Char("uint8", 0, 100, 1), Char("int", None, None, None), Char("float", 0, 100, 0.1)]
    for ch in configs:
        for g in GARBAGE:
            n += 1
            try:
                r = f(g, ch)
                viol.append({"label": "unconvertible input must raise FormatError", "inputs": {"value": repr(g), "format": ch.format},
                             "what": "check_convert_value(%r, %s/%s/%s/%s) returned %r" % (g, ch.format, ch.minValue, ch.maxValue, ch.minStep, r)})
            except FormatError:
                pass
            except Exception as e:
                viol.append({"label": "unconvertible input must raise FormatError", "inputs": {"value": repr(g), "format": ch.format},
                             "what": "check_convert_value(%r, %s/%s/%s/%s) raised %s" % (g, ch.format, ch.minValue, ch.maxValue, ch.minStep, type(e).__name__)})
        for g in NONFINITE:
            n += 1
            try:
                f(g, ch)
            except FormatError:
                pass
            except Exception as e:
                viol.append({"label": "non-finite input: a value or FormatError, no other exception", "inputs": {"value": repr(g), "format": ch.format},
                             "what": "check_convert_value(%r, %s/%s/%s/%s) raised %s" % (g, ch.format, ch.minValue, ch.maxValue, ch.minStep, type(e).__name__)})
    b = Char("bool", None, None, None)
    for s, want in [(x, 1) for x in TRUE_SPELLINGS] + [(x, 0) for x in FALSE_SPELLINGS]:
        n += 1
        try:
            r = f(s, b)
            if r != want or isinstance(r, bool):
                viol.append({"label": "bool yields 0 or 1", "inputs": {"value": repr(s)}, "what": "bool %r -> %r" % (s, r)})
        except Exception as e:
            viol.append({"label": "bool yields 0 or 1", "inputs": {"value": repr(s)}, "what": "bool %r raised %s" % (s, type(e).__name__)})
    for g in ["maybe", "2", "", None, 2]:
        n += 1
        try:
            r = f(g, b)
            viol.append({"label": "unconvertible input must raise FormatError", "inputs": {"value": repr(g), "format": "bool"}, "what": "bool %r -> %r" % (g, r)})
        except FormatError:
            pass
        except Exception as e:
            viol.append({"label": "unconvertible input must raise FormatError", "inputs": {"value": repr(g), "format": "bool"}, "what": "bool %r raised %s" % (g, type(e).__name__)})
    # de-duplicate by (label, exception kind)
    seen, out = set(), []
    for v in viol:
        k = (v["label"], v["what"].rsplit(" ", 1)[-1], v["inputs"].get("format"))
        if k not in seen:
            seen.add(k)
            out.append(v)
    return {"cases": n, "violations": out}


def side_build_update():
    """Service.build_update goes through check_convert_value for every entry (real objects, concrete)"""
    from aiohomekit.model import Accessory
    from aiohomekit.model.characteristics import CharacteristicsTypes
    from aiohomekit.model.services import ServicesTypes
    acc = Accessory.create_with_info(1, "n", "m", "mo", "1", "1")
    svc = acc.add_service(ServicesTypes.THERMOSTAT)
    ch = svc.add_char(CharacteristicsTypes.TEMPERATURE_TARGET, minValue=10, maxValue=38, minStep=0.5)
    br = svc.add_char(CharacteristicsTypes.BRIGHTNESS)
    errs = []
    got = svc.build_update({CharacteristicsTypes.TEMPERATURE_TARGET: 20.26, CharacteristicsTypes.BRIGHTNESS: "55"})
    want = [(1, ch.iid, real_char.check_convert_value(20.26, ch)), (1, br.iid, real_char.check_convert_value("55", br))]
    if got != want:
        errs.append("build_update %r != %r" % (got, want))
    return {"cases": 1, "errors": errs}


# ------------------------------------------------------------------ configurations
def configs(tier):
    cfg = []
    # (fmt, min, max, step, kind, lo, hi)
    if tier == "canary":
        return [("uint8", 0, 100, 1, "int", -50, 300), ("uint8", 0, 100, 2, "int", -50, 300), ("uint8", 1, 100, 3, "int", -10, 200),
                ("float", 10, 38, "0.5", "dec", -5, 50), ("uint32", 0, 2 ** 32 - 1, 1, "int", 0, 2 ** 32)]
    big = 2 ** 64
    cfg += [("uint8", 0, 100, 1, "int", -1000, 1000), ("uint8", 0, 255, 5, "int", -1000, 1000), ("uint8", None, None, None, "int", 0, 255),
            ("uint8", 0, 100, None, "int", -300, 300), ("uint8", 1, 100, 3, "int", -10, 200), ("uint8", 0, 100, 1, "dec", -5, 120)]
    # a maximum that is not a grid point counted from the minimum: the result still has to lie on the grid
    cfg += [("uint8", 0, 100, 30, "int", -50, 300), ("int", 10, 35, 2, "int", -10, 60), ("float", 0, 100, 8, "dec", -10, 200),
            ("float", 0, 1, "0.3", "dec", -1, 2), ("uint16", 7, 1000, 10, "int", 0, 2000)]
    cfg += [("uint16", 0, 65535, 1, "int", -70000, 70000), ("uint16", 0, 65535, 5, "int", -10, 70000), ("uint16", 50, 1000, 10, "int", 0, 2000)]
    cfg += [("uint32", 0, 2 ** 32 - 1, 1, "int", -10, 2 ** 32 + 10), ("uint32", 0, 2 ** 32 - 1, None, "int", -10, 2 ** 32 + 10),
            ("uint32", 0, 10 ** 9, 100, "int", 0, 2 * 10 ** 9)]
    cfg += [("uint64", 0, 2 ** 64 - 1, 1, "int", 0, big), ("uint64", None, None, None, "int", 0, big)]
    cfg += [("int", -2 ** 31, 2 ** 31 - 1, 1, "int", -2 ** 32, 2 ** 32), ("int", -100, 100, 2, "int", -1000, 1000), ("int", None, None, 5, "int", -10 ** 6, 10 ** 6),
            ("int", -50, 50, 1, "dec", -60, 60),
            # zero-valued bounds (falsy in Python) are bounds too
            ("int", -50, 0, 1, "int", -100, 100), ("int", -50, 0, None, "int", -100, 100), ("float", -50, 0, "0.5", "dec", -100, 100),
            ("int", 0, 50, None, "int", -100, 100), ("float", 0, None, "0.5", "dec", -100, 100), ("float", None, 0, None, "dec", -100, 100)]
    cfg += [("float", 10, 38, "0.1", "dec", -100, 100), ("float", 10, 38, "0.5", "dec", -100, 100), ("float", 0, 100, "0.01", "dec", -10, 200),
            ("float", 0, 100, 1, "dec", -10, 200), ("float", None, None, None, "dec", -1000, 1000), ("float", -30, 30, "0.1", "dec", -100, 100),
            ("float", 0, 100000, "0.1", "dec", 0, 100000), ("float", 0, 1, "0.01", "int", -5, 5)]
    if tier == "thorough":
        for fmt, top in (("uint8", 255), ("uint16", 65535), ("uint32", 2 ** 32 - 1), ("uint64", 2 ** 64 - 1)):
            for step in (1, 2, 5, 10):
                cfg.append((fmt, 0, top, step, "int", -10, top + 10))
                cfg.append((fmt, 3, top, step, "int", -10, top + 10))
            cfg.append((fmt, 0, None, 1, "int", -10, top + 10))
            cfg.append((fmt, None, top, 1, "int", -10, top + 10))
        for mn, mx in ((-2 ** 31, 2 ** 31 - 1), (-1000, 1000), (-7, 93)):
            for step in (1, 2, 5, 10):
                cfg.append(("int", mn, mx, step, "int", mn - 100, mx + 100))
        for mn, mx in ((0, 100), (10, 38), (-30, 30), (0, 360), (0, 1000), (None, None), (5, None), (None, 50)):
            for step in ("0.1", "0.5", "0.01", 1, 5):
                cfg.append(("float", mn, mx, step, "dec", -400, 1100))
    # de-duplicate
    seen, out = set(), []
    for c in cfg:
        if c not in seen:
            seen.add(c)
            out.append(c)
    return out


def build(tier, mutate=None):
    C = copies(mutate)
    units = []
    for c in configs(tier):
        fmt, mn, mx, step, kind, lo, hi = c
        name = "convert/%s/min=%s,max=%s,step=%s/%s-input %s..%s" % (fmt, mn, mx, step, kind, lo, hi)
        regions = []
        units.append(Unit(name, convert_unit(C, *c), convert_unit(real_char, *c), regions=regions, split=False,
                          bounds={"format": fmt, "min": str(mn), "max": str(mx), "step": str(step),
                                  "input": ("every integer" if kind == "int" else "every decimal n/10^9") + " in %s..%s" % (lo, hi)}))
    if tier != "canary":
        units.append(Unit("build_update/value-vs-stored-value", build_update_unit(C, False), build_update_unit(real_char, True),
                          bounds={"written": "every integer -300..300", "stored": "equal to the written value / another / none", "configurations": 3},
                          regions=["the-written-value", "another-value"]))
        units.append(Unit("convert/metadata-reassigned-between-two-writes", rewrite_unit(C), rewrite_unit(real_char),
                          bounds={"first and second value": "every integer -200..200 each", "metadata changes": len(CHANGES)}))
    return units


CANARIES = [
    ("rounding mode half-even", {MOD: lambda s: s.replace("ctx.rounding = ROUND_HALF_UP", "pass")}, None),
    ("offset ignored", {MOD: lambda s: s.replace("offset = Decimal(char.minValue if char.minValue is not None else 0)", "offset = Decimal(0)")}, None),
    ("clamp to max dropped", {MOD: lambda s: s.replace("            val = min(Decimal(char.maxValue), val)", "            pass")}, None),
    ("truncation instead of rounding", {MOD: lambda s: s.replace("/ min_step).to_integral_value()", "/ min_step).to_integral_value(rounding='ROUND_FLOOR')")}, None),
]

ASSUMPTIONS = [
    "Decimal/localcontext replaced by a fixed-point rational model: constructor exact, each of - / * + rounds to ctx.prec significant digits with ctx.rounding (decade decided by solver-checked forks), to_integral_value uses the context rounding; validated against the real decimal module by the model-based differential on sampled paths",
    "float(Decimal) is taken as the identity on the decimal value (correctly-rounded conversion is CPython's job)",
    "inputs: every integer in the stated range, or every decimal with at most 9 fractional digits in the stated range (given as a numeric string on the real library); binary floats with longer expansions are outside the exact treatment",
    "tolerance for fractional values: 2*10^(E-5) with 10^E the largest magnitude among the range bounds and the input bound (the six significant digits the conversion keeps); integer formats with integer inputs are checked exactly",
    "without a declared step, an integer format only has to return a nearest integer (either neighbour on a tie)",
]


def main(tier, seed, only=None):
    units = common.filter_units(build(tier), only)
    can = None
    if tier == "thorough" and only is None:
        can = lambda: run_canaries(lambda mut: build("canary", mut), CANARIES, seed)
    extra = [] if only else [("unconvertible-inputs (concrete side check)", side_unconvertible), ("build_update (concrete side check)", side_build_update)]
    return check_property(
        PROP, units, tier, seed,
        explanation="The real check_convert_value runs over a solver-level fixed-point model of Decimal: for every configuration "
                    "(format, min, max, step) and every input in the stated range z3 discharges type, on-grid, nearest-to-clamped-input, "
                    "tie-upward and in-range obligations - exactly for integer formats with integer inputs, to six significant digits "
                    "otherwise. Unconvertible / non-finite inputs and bool spellings are a concrete side check on the real function.",
        assumptions=ASSUMPTIONS, stubs=["decimal.Decimal/localcontext -> symx.decmodel", "builtin float -> identity on the decimal value"],
        bounds={"tier": tier, "configurations": len(units)}, canaries=can, extra_checks=extra, design_ref="DESIGN.md section 5, C14")


def replay(doc):
    if doc["unit"].startswith("unconvertible") or doc["unit"].startswith("build_update"):
        r = side_unconvertible()
        for v in r["violations"]:
            print(v["what"])
        if r["violations"]:
            print("VIOLATION property=%s replay=(replayed)" % PROP)
            return 1
        return 0
    return common.std_replay(PROP, build("thorough"), doc)
