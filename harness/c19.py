"""C19 - device waiters are woken by advertisements; advertisement parsing is robust and the callbacks never raise.
Real code: ble/manufacturer_data.py, ble/controller.py _device_detected / async_find, ble/pairing.py _async_description_update /
_update_cached_state_num / _async_notification, controller/abstract.py _async_description_update, zeroconf.py
HomeKitService.from_service_info / async_find / _async_handle_loaded_service_info.
The waiter half is hand-driven (harness/c19w.py): bounded schedules of waiter starts, advertisements, cancellations and timeouts
on the BLE and the mDNS controller.  The aggregate Controller.async_find (asyncio.create_task / asyncio.wait) is not decided."""
from symx import Unit, as_rope, check_property, decide, int_to_rope, rope_eq, run_canaries, slen
from symx.ideal import World
from symx.rope import SymBytes

from . import ble_adv as BA
from . import c19w, common
from .refs import rope

PROP = "C19"


def adv_bytes(ex, n_max=24):
    """Apple manufacturer data of symbolic length 0..n_max; bytes 3..8 are the (concrete) device id"""
    n = ex.fresh_int("length", 0, n_max)
    head = ex.fresh_bytes("head", 3)
    tail = ex.fresh_bytes("tail", n_max - 9)
    full = rope(head, BA.ADV_ID, tail)
    return as_rope(full).slice(0, n), n, head, tail


def parse_unit(M):
    def h(ex):
        data, n, head, tail = adv_bytes(ex)
        d = data if M.sym else bytes(data.concrete())
        malformed = decide(n == 0) or decide(head[0] != 6) or decide(n < 15)
        try:
            adv = M.mfr.HomeKitAdvertisement.from_manufacturer_data("name", "aa:bb", {76: d})
        except ValueError:
            ex.tag("ValueError")
            ex.require(malformed, "ValueError only for an empty, non-HomeKit or too short advertisement")
            return ex.observe("ValueError")
        ex.require(not malformed, "a malformed advertisement is refused with ValueError")
        if malformed:
            return ex.observe("parsed-malformed")
        ex.tag("parsed")
        ex.require(adv.id == BA.ADV_ID_STR, "device id is the lower-case colon-hex of bytes 3..8")
        ex.require(adv.status_flags == head[2], "status flags are byte 2")
        ex.require(adv.category == tail[0] + 256 * tail[1], "category is the little-endian 16-bit value at 9")
        ex.require(adv.state_num == tail[2] + 256 * tail[3], "state number is the little-endian 16-bit value at 11")
        ex.require(adv.config_num == tail[4], "configuration number is byte 13")
        if decide(n >= 19):
            ex.tag("setup-hash")
            ex.require(rope_eq(adv.setup_hash, as_rope(tail).slice(6, 10)), "setup hash is bytes 15..18")
        else:
            ex.require(slen(adv.setup_hash) == 0, "no setup hash in a short advertisement")
        return ex.observe([adv.id, adv.state_num, adv.config_num])
    return h


def notification_parse_unit(M):
    def h(ex):
        n = ex.fresh_int("length", 0, 24)
        for k in range(25):  # the id is rendered as hex, so its length must be concrete on each path: case split on the length
            if decide(n == k):
                n = k
                break
        head = ex.fresh_bytes("head", 2)
        tail = ex.fresh_bytes("tail", 16)
        data = as_rope(rope(head, BA.ADV_ID, tail)).slice(0, n)  # the advertising id bytes are concrete (they are rendered as hex)
        d = data if M.sym else bytes(data.concrete())
        malformed = decide(n == 0) or decide(head[0] != 0x11)
        try:
            note = M.mfr.HomeKitEncryptedNotification.from_manufacturer_data("name", "aa:bb", {76: d})
        except ValueError:
            ex.require(malformed, "ValueError only for an empty or non-notification advertisement")
            return ex.observe("ValueError")
        ex.require(not malformed, "a malformed notification is refused with ValueError")
        if malformed:
            return ex.observe("parsed-malformed")
        ex.tag("parsed")
        ex.require(rope_eq(note.advertising_identifier, data.slice(2, 8)), "advertising identifier is bytes 2..7")
        ex.require(rope_eq(note.encrypted_payload, data.slice(8, None)), "encrypted payload is everything from byte 8")
        return ex.observe("parsed")
    return h


def controller(M, pairing):
    ctl = object.__new__(M.ctl.BleController)
    ctl.pairings = {BA.ADV_ID_STR: pairing} if pairing is not None else {}
    ctl.discoveries = {}
    ctl._ble_futures = {}
    return ctl


class Fut:
    def __init__(self):
        self.result = None
        self.n = 0

    def set_result(self, r):
        self.result = r
        self.n += 1

    def done(self):
        return self.n > 0


class Dev:
    name, address = "name", "aa:bb"


PAIRINGS = ["none", "cached-state", "cached-state-without-state-number", "no-cached-state"]


def detected_unit(M):
    """_device_detected never raises for any HomeKit advertisement and fulfils exactly the futures registered for its id"""
    def h(ex):
        data, n, head, tail = adv_bytes(ex)
        ex.assume(head[0] != 0x11)  # encrypted notifications (with a concrete advertising id) are the next unit
        which = ex.choice("pairing", PAIRINGS)
        old_desc = ex.fresh_bool("had_description")
        p = None
        if which != "none":
            desc = M.mfr.HomeKitAdvertisement.from_cache("aa:bb", BA.ADV_ID_STR, 1, 5) if old_desc else None
            p = BA.new_pairing(M, "uint8", which.startswith("cached-state"), desc)
            if which == "cached-state-without-state-number":
                p._accessories_state.state_num = None  # the entry written right after the database was fetched / an older cache file
        ctl = controller(M, p)
        mine, other = Fut(), Fut()
        ctl._ble_futures = {BA.ADV_ID_STR: [mine], "11:22:33:44:55:66": [other]}
        saved = M.ctl.BleDiscovery
        M.ctl.BleDiscovery = lambda c, device, d, adv: ("discovery", d.id)

        class Adv:
            manufacturer_data = {76: data if M.sym else bytes(data.concrete())}

        valid = not (decide(n == 0) or decide(head[0] != 6) or decide(n < 15))
        try:
            with BA.patched_tasks(M):
                ctl._device_detected(Dev(), Adv())
            raised = None
        except Exception as e:
            raised = type(e).__name__
        finally:
            M.ctl.BleDiscovery = saved
        ex.require(raised is None, "no advertisement makes the scanner callback raise (pairing: %s)" % which)
        if raised is None:
            if valid:
                ex.tag("valid")
                ex.require(mine.n == 1 and mine.result == ("discovery", BA.ADV_ID_STR), "a waiter for this id is completed with the discovery")
                ex.require(BA.ADV_ID_STR in ctl.discoveries, "the device is recorded in discoveries")
                if p is not None:
                    ex.require(p.description is not None and p.description.state_num == tail[2] + 256 * tail[3],
                               "a loaded pairing is told the advertised state number")
            else:
                ex.tag("malformed")
                ex.require(mine.n == 0 and not ctl.discoveries, "a malformed advertisement is ignored")
            ex.require(other.n == 0, "waiters for other ids are not completed")
        return ex.observe([raised, mine.n, other.n])
    return h


NOTE_KINDS = ["genuine", "genuine-unknown-iid", "genuine-short-plaintext", "other-key", "arbitrary"]


def detected_notification_unit(M):
    """type-0x11 advertisements through _device_detected: never raises, also for authentic ones with an unknown id / short plaintext"""
    def h(ex):
        sym = M.sym
        kind = ex.choice("kind", NOTE_KINDS)
        which = ex.choice("pairing", PAIRINGS)
        c = ex.fresh_int("nonce_counter", 6, 20)
        iid = BA.KNOWN_IID if kind != "genuine-unknown-iid" else 99
        pt = rope(int_to_rope(c, 2, "little"), int_to_rope(iid, 2, "little"), b"\x01" + bytes(7))
        if kind == "genuine-short-plaintext":
            pt = as_rope(pt).slice(0, ex.fresh_int("ptlen", 0, 11))
        key_name = "other" if kind == "other-key" else "bk"
        if sym:
            W = World.get()
            kb, kbu = W.term(("key", "bk"), 32), W.term(("key", key_name), 32)
            payload = BA.IdealPartialTag(kbu).seal(BA.nonce(c), pt, BA.ADV_ID) if kind != "arbitrary" else ex.fresh_bytes("adv_payload", 0, 16)
        else:
            kb, kbu = (b"bk" * 32)[:32], (key_name.encode() * 32)[:32]
            payload = BA.seal_real(kbu, c, pt.concrete(), BA.ADV_ID) if kind != "arbitrary" else ex.fresh_bytes("adv_payload", 0, 16)
        p = None
        if which != "none":
            desc = M.mfr.HomeKitAdvertisement.from_cache("aa:bb", BA.ADV_ID_STR, 1, 5)
            p = BA.new_pairing(M, "uint8", which.startswith("cached-state"), desc)
            if which == "cached-state-without-state-number":
                p._accessories_state.state_num = None
            p._broadcast_decryption_key = M.key.BroadcastDecryptionKey(kb)
        ctl = controller(M, p)
        data = rope(b"\x11\x00", BA.ADV_ID, payload)

        class Adv:
            manufacturer_data = {76: data if sym else bytes(data.concrete())}

        try:
            with BA.patched_tasks(M):
                ctl._device_detected(Dev(), Adv())
            raised = None
        except Exception as e:
            raised = type(e).__name__
        ex.require(raised is None, "no encrypted notification makes the scanner callback raise (%s, pairing: %s)" % (kind, which))
        if p is not None and raised is None and kind in ("other-key", "arbitrary"):
            ex.require(len(p.calls) == 0 and p.description.state_num == 5, "a forged notification changes nothing")
        ex.tag(kind)
        return ex.observe([raised, len(p.calls) if p is not None else -1])
    return h


def build(tier, mutate=None):
    C = c19w.copies_zc(BA.copies(mutate), mutate)
    R = c19w.reals_zc(BA.reals())
    plans = [(2, 4)] if tier != "thorough" else [(2, 5), (3, 4)]
    units = [
        Unit("parse/HomeKitAdvertisement", parse_unit(C), parse_unit(R), split=True,
             bounds={"length": "0..24 (symbolic)", "bytes": "all symbolic except the 6 id bytes"}, regions=["ValueError", "parsed", "setup-hash"]),
        Unit("parse/HomeKitEncryptedNotification", notification_parse_unit(C), notification_parse_unit(R),
             bounds={"length": "0..24 (symbolic)", "bytes": "all symbolic except the 6 advertising-id bytes"}, regions=["parsed"]),
        Unit("callback/_device_detected/advertisement", detected_unit(C), detected_unit(R), split=True,
             bounds={"advertisement": "every byte string of length 0..24 whose type byte is not 0x11 (id bytes concrete)", "pairing": PAIRINGS, "previous description": "present / absent"},
             regions=["valid", "malformed"]),
        Unit("callback/_device_detected/encrypted-notification", detected_notification_unit(C), detected_notification_unit(R), split=True,
             bounds={"payload": NOTE_KINDS, "pairing": PAIRINGS, "nonce counter": "6..20", "short plaintext": "0..11 bytes"},
             regions=NOTE_KINDS),
    ]
    for World in (c19w.BleWorld, c19w.MdnsWorld):
        for nw, depth in plans:
            units.append(Unit("waiters/%s/%d-waiters,%d-events" % (World.name, nw, depth), c19w.waiter_unit(C, World, nw, depth), c19w.waiter_unit(R, World, nw, depth), split=True,
                              bounds={"waiters": nw, "ids": 2, "events": depth, "event alphabet": c19w.EVENTS2 if nw == 2 else c19w.EVENTS3,
                                      "resume order of simultaneously ready waiters": "both", "wake-ups": "at once, or after the next callback",
                                      "pairing loaded for the advertised id": "yes / no"},
                              regions=["woken", "timed-out", "cancelled"], diff_sample=400, max_paths=3000000))
    units.append(Unit("parse/HomeKitService.from_service_info", c19w.mdns_parse_unit(C), c19w.mdns_parse_unit(R),
                      bounds={"address lists": c19w.ADDRS, "key spelling": "lower/upper/mixed", "id spelling": "lower/upper", "numbers": "present/absent"},
                      regions=["parsed", "refused"], diff_sample=400))
    units.append(Unit("startup/_async_update_from_cache", c19w.startup_cache_unit(C), c19w.startup_cache_unit(R),
                      bounds={"cached PTR records": c19w.CACHE_ORDERS, "pairing loaded": "yes / no"}))
    return units


CANARIES = [
    ("BLE waiter not registered", {BA.CTL: lambda s: s.replace("        self._ble_futures.setdefault(device_id, []).append(future)\n", "")}, lambda n: n.startswith("waiters/ble")),
    ("BLE set_result on finished futures", {BA.CTL: lambda s: s.replace("                if not future.done():\n                    future.set_result(discovery)", "                future.set_result(discovery)")}, lambda n: n.startswith("waiters/ble")),
    ("mDNS waiters looked up by the raw id", {c19w.ZC: lambda s: s.replace("        device_id = device_id.lower()\n\n        if discovery := self.discoveries.get(device_id):", "        if discovery := self.discoveries.get(device_id):")}, lambda n: n.startswith("waiters/mdns")),
    ("mDNS link-local addresses kept", {c19w.ZC: lambda s: s.replace("if not ip_addr.is_link_local and not ip_addr.is_unspecified", "if not ip_addr.is_unspecified")}, lambda n: n.startswith("parse/HomeKitService")),
    ("minimum length 15 -> 14", {BA.MFR: lambda s: s.replace("        if len(data) < 15:", "        if len(data) < 14:")}, lambda n: n.startswith("parse/HomeKitAdv") or n.startswith("callback/_device_detected/adv")),
    ("state and config number swapped", {BA.MFR: lambda s: s.replace("acid, gsn, cn, cv = UNPACK_HHBB(data[9:15])", "acid, cn, gsn, cv = UNPACK_HHBB(data[9:15])")}, lambda n: n.startswith("parse/HomeKitAdv")),
    ("futures of every id fulfilled", {BA.CTL: lambda s: s.replace("        if futures := self._ble_futures.get(data.id):", "        for futures in list(self._ble_futures.values()):")}, lambda n: n.startswith("callback/_device_detected/adv")),
    ("parse error not caught", {BA.CTL: lambda s: s.replace("            data = HomeKitAdvertisement.from_manufacturer_data(device.name, device.address, manufacturer_data)\n        except ValueError:\n            return", "            data = HomeKitAdvertisement.from_manufacturer_data(device.name, device.address, manufacturer_data)\n        except KeyError:\n            return")}, lambda n: n.startswith("callback/_device_detected/adv")),
]

ASSUMPTIONS = [
    "every Apple manufacturer-data byte string of length 0..24 with symbolic content (the 6 device-id bytes are concrete so that routing can hit the loaded pairing); Categories/StatusFlags (IntFlag: every non-negative int is accepted) are identity wrappers on the symbolic side",
    "pairings are built with object.__new__ (no cached accessory state / cached state / none loaded); BleDiscovery construction, the cache write and async_create_task are recorders; time.monotonic is real",
    "encrypted notifications under the ideal partial-tag AEAD of C18, including authentic ones whose inner id is not in the cached database or whose plaintext is shorter than 12 bytes",
    "waiter half (hand-driven, harness/c19w.py): every waiter is the real async_find coroutine; futures are harness objects with asyncio.Future's state machine (set_result on a finished future raises InvalidStateError); the harness performs three documented loop actions - resume a coroutine whose future is done (both orders; optionally only after the next callback), Task.cancel() (cancel the awaited future, or throw CancelledError at the wake-up if it is already done), fire a timer (loop.call_later callback / asyncio.timeout = Task.cancel turned into TimeoutError on exit); schedules of at most `events` selectors over the stated alphabet; excluded as ambiguous: a timeout after a cancellation of the same waiter and vice versa",
    "NOT decided: the aggregate Controller.async_find (asyncio.create_task/asyncio.wait need a running loop); real timer accuracy; mDNS TXT parsing goes through zeroconf's compiled AsyncServiceInfo",
]


def main(tier, seed, only=None):
    units = common.filter_units(build(tier), only)
    can = None
    if tier == "thorough" and only is None:
        can = lambda: run_canaries(lambda mut: build("canary", mut), CANARIES, seed)
    return check_property(
        PROP, units, tier, seed,
        explanation="HomeKitAdvertisement / HomeKitEncryptedNotification parsing for every manufacturer-data byte string up to 24 bytes "
                    "against the field-extraction spec, and BleController._device_detected (with the real pairing-side handlers) for "
                    "every such advertisement and every pairing situation: never raises, completes exactly the waiters registered for "
                    "the advertised id, ignores malformed data.",
        assumptions=ASSUMPTIONS, stubs=["ChaCha20Poly1305PartialTag -> ideal partial-tag AEAD", "BleDiscovery -> tuple", "async_create_task / cache write -> recorder"],
        bounds={"tier": tier}, canaries=can, design_ref="DESIGN.md section 5, C19")


def replay(doc):
    return common.std_replay(PROP, build("thorough"), doc)
