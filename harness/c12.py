"""C12 (partly) - subscriptions survive reconnects and every event reaches every listener once.

Real code: IpPairing.subscribe / unsubscribe / _update_subscriptions / connection_made / event_received
(controller/ip/pairing.py), HomeKitConnection.event_received (controller/ip/connection.py), AbstractPairing.subscribe /
unsubscribe / dispatcher_connect / _callback_listeners (controller/abstract.py).  The accessory is a recorder behind
connection.put_json: per session it remembers which (aid, iid) were registered for events, and a selector can cut a
request off with a disconnection.  Every coroutine runs to completion under one send(None) (nothing suspends).
The history is a bounded sequence of symbolic selectors over {subscribe S, unsubscribe S, reconnect (optionally cut off at
its k-th request), disconnect, event burst, listener added / removed}; what is delivered on the event path are real bytes
through the real event_received."""
import aiohomekit.controller.ip.connection as real_ipc
import aiohomekit.controller.ip.pairing as real_ipp
import aiohomekit.exceptions as X

from symx import Unit, check_property, drive, load, run_canaries

from . import common

PROP = "C12"
IPC, IPP, ABS, ZC = "aiohomekit.controller.ip.connection", "aiohomekit.controller.ip.pairing", "aiohomekit.controller.abstract", "aiohomekit.zeroconf"
IDS = [(1, 10), (1, 11), (2, 10)]
SUBSETS = [[0], [0, 1], [1, 2], [0, 2, 1]]  # the last one interleaves the two accessory ids
SUBSETS_THOROUGH = [[0], [1], [2], [0, 1], [0, 2], [1, 2], [0, 2, 1], [2, 0, 1]]


class Mods:
    pass


def copies(mutate=None):
    mutate = mutate or {}
    m = Mods()
    m.abs = load(ABS, src_transform=mutate.get(ABS), symbolic=False)
    m.ipc = load(IPC, src_transform=mutate.get(IPC), symbolic=False)
    m.zc = load(ZC, deps={ABS: m.abs}, src_transform=mutate.get(ZC), symbolic=False)  # IpPairing -> ZeroconfPairing -> AbstractPairing
    m.ipp = load(IPP, deps={IPC: m.ipc, ABS: m.abs, ZC: m.zc}, src_transform=mutate.get(IPP), symbolic=False)
    return m


def reals():
    m = Mods()
    m.ipc, m.ipp = real_ipc, real_ipp
    return m


class Accessory:
    """what the accessory has been asked: per session the ids registered for events"""

    def __init__(self):
        self.session = 0
        self.registered = {0: set()}
        self.requests = []  # (session, [aids in the request])
        self.cut_at = None  # the k-th request of this session is cut off by a disconnection
        self.in_session = 0

    def new_session(self):
        self.session += 1
        self.registered[self.session] = set()
        self.in_session = 0


def world(M):
    acc = Accessory()

    class Conn(M.ipc.HomeKitConnection):
        up = True

        @property
        def is_connected(self):
            return self.up

        async def put_json(self, target, body):
            acc.in_session += 1
            if acc.cut_at is not None and acc.in_session >= acc.cut_at:
                self.up = False
                raise X.AccessoryDisconnectedError("Connection closed")
            rows = body["characteristics"]
            acc.requests.append((acc.session, [r["aid"] for r in rows], target))
            for r in rows:
                if r["ev"]:
                    acc.registered[acc.session].add((r["aid"], r["iid"]))
                else:
                    acc.registered[acc.session].discard((r["aid"], r["iid"]))
            return {}

    conn = object.__new__(Conn)
    p = object.__new__(M.ipp.IpPairing)
    conn.owner = p
    p.connection = conn
    p.id, p.description, p._shutdown = "aa:bb", None, False
    p.subscriptions, p.listeners, p.availability_listeners = set(), set(), set()
    p.supports_subscribe = True

    async def ensure():
        if not conn.up:
            raise X.AccessoryDisconnectedError("not connected")

    p._ensure_connected = ensure
    return p, conn, acc


class Listener:
    def __init__(self, name, raises):
        self.name, self.raises, self.log = name, raises, []

    def __call__(self, event):
        self.log.append(event)
        if self.raises:
            raise ValueError("listener %s failed" % self.name)


class Ev:
    def __init__(self, body):
        self.body = body


BODIES = ["one", "two-characteristics", "empty", "not-json", "not-utf8"]


def event_body(kind, n):
    if kind == "one":
        return b'{"characteristics":[{"aid":1,"iid":10,"value":%d}]}' % n, {(1, 10): {"value": n}}
    if kind == "two-characteristics":
        return b'{"characteristics":[{"aid":1,"iid":11,"value":%d},{"aid":2,"iid":10,"value":true}]}' % n, {(1, 11): {"value": n}, (2, 10): {"value": True}}
    if kind == "empty":
        return b"", None
    if kind == "not-json":
        return b"{not json", None
    return b'{"characteristics":\xff\xfe}', None


def history_unit(M, depth, SUBSETS=SUBSETS):
    events = ["subscribe", "unsubscribe", "reconnect", "reconnect-cut-off", "disconnect", "event", "add-listener", "remove-listener"]

    def h(ex):
        p, conn, acc = world(M)
        acc.new_session()
        listeners = []  # (Listener, stop callable or None once removed)
        sent = []  # what every listener registered at that time must have received, in order: (listener names, formatted event)
        wanted = set()
        cut_seen = False
        for i in range(depth):
            ev = ex.choice("event%d" % i, events)
            try:
                if ev in ("subscribe", "unsubscribe"):
                    ids = [IDS[j] for j in ex.choice("ids%d" % i, SUBSETS)]
                    before = len(acc.requests)
                    if ev == "subscribe":
                        drive(p.subscribe(ids))
                        wanted |= set(ids)
                        ex.tag("subscribe")
                        if conn.up and not cut_seen:
                            ex.require(set(ids) <= acc.registered[acc.session], "subscribe: the accessory has been asked to send events for every id of the call")
                    else:
                        drive(p.unsubscribe(ids))
                        wanted -= set(ids)
                        if conn.up and not cut_seen:
                            ex.require(not (set(ids) & acc.registered[acc.session]), "unsubscribe: the accessory has been asked to stop for every id of the call")
                    ex.require(set(p.subscriptions) == wanted, "the pairing remembers exactly the ids the caller wants events for")
                    ex.require(all(len(set(aids)) == 1 and t == "/characteristics" for s, aids, t in acc.requests[before:]), "one request per accessory id, to /characteristics")
                elif ev in ("reconnect", "reconnect-cut-off"):
                    ex.assume(not conn.up)
                    acc.new_session()
                    conn.up = True
                    acc.cut_at = ex.choice("cut_at_request%d" % i, [1, 2]) if ev == "reconnect-cut-off" else None
                    marks = {l.name: len(l.log) for l, stop in listeners if stop is not None}
                    drive(p.connection_made(True))
                    cut_happened = not conn.up
                    acc.cut_at = None
                    for l, stop in listeners:
                        if stop is not None:
                            ex.require(l.log[marks[l.name]:marks[l.name] + 1] == [{}], "listeners are told the connection is back")
                    if cut_happened:
                        cut_seen = True
                        ex.tag("cut-off")
                    elif not cut_seen:
                        ex.tag("reconnected")
                        ex.require(wanted <= acc.registered[acc.session], "after a (re)connection the accessory has again been asked for every subscribed id")
                    sent_mark = None
                elif ev == "disconnect":
                    ex.assume(conn.up)
                    conn.up = False
                elif ev == "event":
                    ex.assume(conn.up)
                    kind = ex.choice("body%d" % i, BODIES)
                    body, formatted = event_body(kind, i)
                    marks = {l.name: len(l.log) for l, stop in listeners if stop is not None}
                    conn.event_received(Ev(body))
                    ex.tag("event-" + kind)
                    for l, stop in listeners:
                        if stop is None:
                            continue
                        got = l.log[marks[l.name]:]
                        if formatted is None:
                            ex.require(got == [], "an empty or unparsable event body is not delivered")
                        else:
                            ex.require(got == [formatted], "every event reaches every registered listener exactly once, keyed by (aid, iid)")
                elif ev == "add-listener":
                    ex.assume(len(listeners) < 3)
                    l = Listener("L%d" % len(listeners), ex.fresh_bool("raises%d" % i))
                    listeners.append((l, p.dispatcher_connect(l)))
                else:
                    k = ex.choice("which%d" % i, [0, 1, 2])
                    ex.assume(k < len(listeners) and listeners[k][1] is not None)
                    listeners[k][1]()
                    listeners[k] = (listeners[k][0], None)
                    mark = len(listeners[k][0].log)
            except X.AccessoryDisconnectedError as e:
                ex.require(False, "subscription and event handling does not raise a disconnection error to its caller (%s in %s)" % (e, ev))
                return ex.observe(["raised", ev])
            except Exception as e:  # noqa
                ex.require(False, "no step of the history raises (%s in %s)" % (type(e).__name__, ev))
                return ex.observe(["raised", ev, type(e).__name__])
            # removed listeners hear nothing any more
            for l, stop in listeners:
                if stop is None and not hasattr(l, "frozen"):
                    l.frozen = len(l.log)
                if stop is None:
                    ex.require(len(l.log) == l.frozen, "a removed listener receives nothing")
        return ex.observe([sorted(p.subscriptions), conn.up, [len(l.log) for l, s in listeners]])
    return h


def build(tier, mutate=None):
    C = copies(mutate)
    R = reals()
    depth = 4
    subsets = SUBSETS_THOROUGH if tier == "thorough" else SUBSETS
    units = [Unit("history/%d-events,%d-id-lists" % (depth, len(subsets)), history_unit(C, depth, subsets), history_unit(R, depth, subsets), split=True,
                 bounds={"events": depth, "ids": IDS, "id sets": "%d lists over 3 ids on 2 accessory ids" % len(subsets), "listeners": "at most 3, each may raise",
                         "event bodies": BODIES, "reconnect": "clean, or cut off at its 1st / 2nd request"},
                 regions=["subscribe", "reconnected", "cut-off", "event-one", "event-empty", "event-not-json"], diff_sample=400, max_paths=3000000)]
    if tier != "canary":
        # events split across reads and coalesced with what follows: the byte stream up to event_received (units of C07)
        from . import c07
        core = dict(c07.core_templates())
        C7 = c07.copies(mutate)
        for nm in ("event+http", "event-cl"):
            ms = core[nm]
            units.append(Unit("event-stream/%s/cuts=2 (unit of C07)" % nm, c07.seg_unit(C7, ms, 2), c07.seg_unit(c07.real_conn, ms, 2), split=True,
                              bounds={"stream_bytes": len(c07.render(ms)[0]), "cuts": "2, all positions (symbolic)"}, regions=["interior-cut"]))
        # ... and, on a secure session, inside encrypted frames whose reads end anywhere (unit of C05)
        from . import c05
        units.append(Unit("event-stream/secure-frames/F=2,R=2 (unit of C05)", c05.inbound(c05.copies(mutate), 2, 2, None), c05.inbound(c05.real_conn, 2, 2, None), split=True,
                          bounds={"frames": 2, "reads": 2, "cuts": "all positions (symbolic)"}, regions=["interior-cut"]))
    return units


CANARIES = [
    ("no re-subscription on reconnect", {IPP: lambda s: s.replace("        if self.subscriptions:\n            await self.subscribe(self.subscriptions)\n\n    async def _ensure_connected", "        pass\n\n    async def _ensure_connected")}, None),
    ("listeners not told the connection is back", {IPP: lambda s: s.replace("        self._callback_listeners(EMPTY_EVENT)\n\n        if self.subscriptions:", "        if self.subscriptions:")}, None),
    ("a raising listener stops the fan-out", {ABS: lambda s: s.replace("            except Exception:\n                logger.exception(\"Unhandled error when processing event\")", "            except ZeroDivisionError:\n                pass")}, None),
    ("all accessory ids in one request", {IPP: lambda s: s.replace("            for _, aid_iids in groupby(characteristics, key=itemgetter(0))", "            for _, aid_iids in groupby(characteristics, key=lambda c: 0)")}, None),
    ("unsubscribe forgets nothing", {ABS: lambda s: s.replace("        self.subscriptions.difference_update(characteristics)", "        pass")}, None),
]

ASSUMPTIONS = [
    "PARTIAL, hand-driven: the pairing and its connection are built with object.__new__; connection.put_json is the recording accessory (replies with an empty body = success, or raises AccessoryDisconnectedError when the selector cuts the session off), _ensure_connected reflects the connected flag; nothing suspends, every coroutine runs to completion under one send(None)",
    "every symbolic variable is a discrete selector (bounded exhaustive exploration of these histories of the real code); event bodies are concrete byte strings through the real HomeKitConnection.event_received -> hkjson -> format_characteristic_list -> _callback_listeners",
    "after a subscription request was cut off by a disconnection the library falls back to polling (supports_subscribe = False): from then on only 'nothing raises', the listener obligations and the bookkeeping of the wanted ids are checked",
    "NOT decided: events interleaved with responses on the wire and split across reads (C07/C08 cover the byte stream up to event_received), per-status replies to subscription requests (C13), BLE/CoAP subscriptions, the order in which different listeners are called",
]


def main(tier, seed, only=None):
    units = common.filter_units(build(tier), only)
    can = None
    if tier == "thorough" and only is None:
        can = lambda: run_canaries(lambda mut: build("canary", mut), CANARIES, seed)
    return check_property(
        PROP, units, tier, seed,
        explanation="The real subscribe/unsubscribe/connection_made/event_received code runs against a recording accessory for every bounded "
                    "history of subscription calls, disconnect/reconnect cycles (optionally cut off mid-way), event bursts with good, empty "
                    "and unparsable bodies and listener registration/removal: after every clean (re)connection the accessory has been asked "
                    "again for every subscribed id, one request per accessory id; listeners are told the connection is back; each event "
                    "reaches each registered listener once; a raising listener neither stops the others nor propagates.",
        assumptions=ASSUMPTIONS, stubs=["connection.put_json -> recording accessory", "_ensure_connected -> connected flag"],
        bounds={"tier": tier}, canaries=can, design_ref="DESIGN.md section 0.3a, C12")


def replay(doc):
    return common.std_replay(PROP, build("thorough"), doc)
