"""C11 (partly) - a pairing never holds more than one open connection and leaks none.
The real SecureHomeKitConnection._connect_once / HomeKitConnection._connect_once (from the point where the socket exists),
post_tlv / post / request, InsecureHomeKitProtocol (_send_lines, data_received, connection_made, connection_lost), HttpResponse,
_drop_transport, close, _stop_connector, _connection_lost run against a harness-side network model; histories of set-up
outcomes, peer closes and close() are symbolic selectors.  Nothing awaited ever suspends (fake loop, immediate replies)."""
import asyncio

import aiohomekit.controller.ip.connection as real_ipc
import aiohomekit.exceptions as X
from aiohomekit.protocol.tlv import TLV

from symx import Unit, check_property, load, run_canaries

from . import common

PROP = "C11"
IPC = "aiohomekit.controller.ip.connection"
OUTCOMES = ["ok", "InvalidSignatureError", "InvalidAuthTagError", "IncorrectPairingIdError", "AuthenticationError", "InvalidError",
            "TlvParseException", "ValueError", "CancelledError",
            "peer-close-at-M1", "peer-close-at-M3", "http-470-at-M1", "http-400-at-M3",
            # pair-verify succeeds, then the owner's connection_made(True) hook (re-subscription) fails
            "ok-then-hook-KeyError", "ok-then-hook-HttpErrorResponse",
            # the real get_session_keys with damaged long-term keys in the pairing data (fails when the keys are needed)
            "real-verify-with-damaged-pairing-data"]
REPRESENTATIVES = ["ok", "InvalidSignatureError", "IncorrectPairingIdError", "ValueError", "CancelledError",
                   "peer-close-at-M1", "peer-close-at-M3", "http-470-at-M1", "ok-then-hook-KeyError"]
HOSTS = [["10.0.0.1"], ["accessory.local"]]  # an advertised literal address, or a name that resolves to it


def copies(mutate=None):
    mutate = mutate or {}
    return load(IPC, src_transform=mutate.get(IPC), symbolic=False)  # every value is concrete here: real builtins


class EndOfAttempt(BaseException):
    """raised by the stubbed back-off sleep of _reconnect"""


class FakeFuture:
    """asyncio.Future's state machine without a loop"""

    def __init__(self):
        self._r, self._e, self._d, self._c = None, None, False, False

    def done(self):
        return self._d

    def cancelled(self):
        return self._c

    def set_result(self, r):
        if self._d:
            raise asyncio.InvalidStateError("invalid state")
        self._r, self._d = r, True

    def set_exception(self, e):
        if self._d:
            raise asyncio.InvalidStateError("invalid state")
        self._e, self._d = (e() if isinstance(e, type) else e), True

    def cancel(self, msg=None):
        if self._d:
            return False
        self._d = self._c = True
        return True

    def __await__(self):
        if not self._d:
            yield self
        if self._c:
            raise asyncio.CancelledError()
        if self._e:
            raise self._e
        return self._r


class Handle:
    def cancel(self):
        pass


class Net:
    """the accessory side: which connections are open"""

    def __init__(self):
        self.open = []
        self.all = []


class FakeTransport:
    def __init__(self, net, proto, script):
        self.net, self.proto, self.script, self.closed, self.n = net, proto, script, False, 0
        net.open.append(self)
        net.all.append(self)

    def is_closing(self):
        return self.closed

    def close(self):
        if not self.closed:
            self.closed = True
            self.net.open.remove(self)
            self.pending_lost = True  # asyncio reports the loss to the protocol later (call_soon), not inside close()

    def deliver_lost(self):
        """the event loop gets round to telling the protocol that a transport the controller closed is gone"""
        if getattr(self, "pending_lost", False):
            self.pending_lost = False
            self.proto.connection_lost(None)

    def abort(self):
        self.close()

    def write_eof(self):
        if getattr(self, "reset", False):
            # the peer has reset the connection and the loop has not reported the loss yet: shutdown() on that socket fails
            raise OSError(107, "Transport endpoint is not connected")

    def set_protocol(self, p):
        self.proto = p

    def writelines(self, parts):
        self.script(self, b"".join(bytes(p) for p in parts))

    def write(self, data):
        self.script(self, bytes(data))

    def peer_close(self):
        """the accessory closes the socket: asyncio then calls connection_lost on the bound protocol"""
        if not self.closed:
            self.closed = True
            self.net.open.remove(self)
            self.proto.connection_lost(None)


class Env:
    """fake loop / happy eyeballs / timeout / task creation patched into the module under test (restored afterwards)"""

    def __init__(self, M, net):
        self.M, self.net = M, net
        self.script = None
        self.tasks = []

    def __enter__(self):
        M, env = self.M, self
        self.saved = {k: getattr(M, k) for k in ("asyncio", "asyncio_timeout", "aiohappyeyeballs", "async_create_task", "get_session_keys", "interrupt")}

        class Loop:
            def create_future(self):
                return FakeFuture()

            def time(self):
                return 0.0

            def call_at(self, *a):
                return Handle()

            async def create_connection(self, factory, sock=None):
                p = factory()
                t = FakeTransport(env.net, p, sock.script)
                p.connection_made(t)
                return t, p

        self.loop = Loop()

        class AsyncioFacade:
            def __getattr__(self, k):
                return getattr(asyncio, k)

            def get_running_loop(self_):
                return env.loop

            async def sleep(self_, t):
                raise EndOfAttempt()  # the back-off sleep: this attempt is over (C10 decides what the loop does next)

        class NoTimeout:
            def __init__(self, t):
                pass

            async def __aenter__(self):
                return self

            async def __aexit__(self, *a):
                return False

        class Sock:
            def __init__(self, script):
                self.script = script

            def getpeername(self):
                return ("10.0.0.1", 80)

            def setsockopt(self, *a):
                pass

        class HE:
            @staticmethod
            async def start_connection(addr_infos, **k):
                env.tried = [a[3] for a in addr_infos]  # the addresses handed to happy eyeballs for this attempt
                return Sock(env.script)

            @staticmethod
            def pop_addr_infos_interleave(a, i):
                a.clear()

        class Interrupt:
            def __init__(self, fut, exc, msg):
                pass

            async def __aenter__(self):
                return self

            async def __aexit__(self, *a):
                return None

        M.interrupt = Interrupt
        M.asyncio, M.asyncio_timeout, M.aiohappyeyeballs = AsyncioFacade(), NoTimeout, HE
        M.async_create_task = lambda coro: (coro.close(), env.tasks.append("connector"))[1]
        return self

    def __exit__(self, *a):
        for k, v in self.saved.items():
            setattr(self.M, k, v)
        return False


def drive(coro):
    try:
        coro.send(None)
        coro.close()
        return ("SUSPENDED", None)
    except StopIteration as r:
        return ("ok", r.value)
    except BaseException as e:
        return ("raised", type(e).__name__)


class FakeTask:
    def __init__(self, st):
        self.st = st  # running | finished-ok | finished-auth-error | finished-connection-error
        self.cancel_calls = 0

    def cancel(self, msg=None):
        self.cancel_calls += 1

    def done(self):
        return self.st != "running"

    def __await__(self):
        if self.st == "finished-auth-error":
            raise X.AuthenticationError("step 3")
        if self.st == "finished-connection-error":
            raise X.AccessoryDisconnectedError("gone")
        if self.st == "running":
            raise asyncio.CancelledError()
        return None
        yield


def new_conn(M, env):
    c = object.__new__(M.SecureHomeKitConnection)
    c.owner, c.hosts, c.port = None, ["10.0.0.1"], 80
    c.closing = c.closed = False
    c.transport = c.protocol = c._connector = None
    c.is_secure = False
    c._loop = env.loop
    c._concurrency_limit = asyncio.Semaphore(1)
    c._connect_lock = asyncio.Lock()
    c._reconnect_future = None
    c._last_connector_error = None
    c.connected_host = c.host_header = None
    c._pair_verify_failed_hosts = set()
    c.pairing_data = {}
    return c


def attempt(M, env, conn, out, late_loss=False):
    """one connection attempt whose secure set-up ends the given way; late_loss: while this attempt is between M1 and M2 the
    event loop reports the loss of every connection the controller closed earlier"""
    def script(tr, data):
        tr.n += 1
        if late_loss and tr.n == 1:
            for old in list(env.net.all):
                if old is not tr:
                    old.deliver_lost()
        if (out == "peer-close-at-M1" and tr.n == 1) or (out == "peer-close-at-M3" and tr.n == 2):
            tr.peer_close()
            return
        code = b"200 OK"
        if (out == "http-470-at-M1" and tr.n == 1):
            code = b"470 Connection Authorization Required"
        if (out == "http-400-at-M3" and tr.n == 2):
            code = b"400 Bad Request"
        body = bytes(TLV.encode_list([(6, b"\x02" if tr.n == 1 else b"\x04")]))
        tr.proto.data_received(b"HTTP/1.1 " + code + b"\r\nContent-Type: application/pairing+tlv8\r\nContent-Length: "
                               + str(len(body)).encode() + b"\r\n\r\n" + body)

    env.script = script

    class Owner:
        name, description, hook_owner = "owner", None, True

        async def connection_made(self, secure):
            if secure and out == "ok-then-hook-KeyError":
                raise KeyError("status")
            if secure and out == "ok-then-hook-HttpErrorResponse":
                raise X.HttpErrorResponse("Got HTTP error 400 for PUT against /characteristics", response=None)

    if out.startswith("ok-then-hook"):
        conn.owner = Owner()
    elif getattr(conn.owner, "hook_owner", False):
        conn.owner = None  # (an owner the caller installed itself stays)

    def gsk(pairing_data):
        resp = yield ([(6, b"\x01")], [6, 7])
        if out in ("InvalidSignatureError", "InvalidAuthTagError", "IncorrectPairingIdError", "AuthenticationError", "InvalidError"):
            raise getattr(X, out)("step 3")
        if out == "TlvParseException":
            from aiohomekit.protocol.tlv import TlvParseException
            raise TlvParseException("Not enough data")
        if out == "ValueError":
            raise ValueError("An X25519 public key is 32 bytes long")
        if out == "CancelledError":
            raise asyncio.CancelledError()
        resp = yield ([(6, b"\x03")], [6, 7])
        return b"sid", (lambda salt, info, length=32: b"K" * 32)

    M.get_session_keys = gsk
    if out == "real-verify-with-damaged-pairing-data":
        M.get_session_keys = env.saved["get_session_keys"]
        conn.pairing_data = {"AccessoryPairingID": "AA:BB", "AccessoryLTPK": "00ff", "iOSPairingId": "me", "iOSDeviceLTSK": "zz", "iOSDeviceLTPK": "00"}
    # through the real _reconnect (its exception classes, the immediate retry on a newly marked address) up to its back-off sleep
    r = drive(conn._reconnect())
    return ("raised", "failed attempt, connector sleeps") if r == ("raised", "EndOfAttempt") else r


def history_unit(M, K, outcomes=None):
    outcomes = outcomes or OUTCOMES

    def h(ex):
        outs = [ex.choice("outcome%d" % i, outcomes) for i in range(K)]
        hosts = ex.choice("hosts", HOSTS)
        late = ex.choice("late_loss_during_attempt", ["none"] + list(range(1, K)))
        stale = ex.choice("peer_closes_connection", ["none"] + list(range(K)))
        do_close = ex.fresh_bool("close")
        connector = ex.choice("connector", ["none", "running", "finished-ok", "finished-auth-error", "finished-connection-error"])
        net = Net()
        with Env(M, net) as env:
            conn = new_conn(M, env)
            conn.hosts = list(hosts)
            made = []
            for i in range(K):
                before = len(net.all)
                r = attempt(M, env, conn, outs[i], late_loss=(late == i))
                if late == i:
                    ex.tag("late-loss-mid-verify")
                ex.require(r[0] != "SUSPENDED", "(harness) set-up runs to completion")
                new = net.all[before:]
                made.append(new[0] if new else None)
                if outs[i] != "http-400-at-M3":  # post_tlv closes the socket and still decodes the error reply: either verdict is acceptable
                    ex.require((r[0] == "ok") == (outs[i] == "ok"), "set-up succeeds exactly when pair-verify succeeds")
                if r[0] == "raised":
                    ex.tag("failed-setup")
                    ex.require(not net.open, "a connection whose secure-session set-up fails is closed by the controller (%s)" % outs[i])
                ex.require(len(net.open) <= 1, "at most one connection is open at any moment")
                ex.require(all(t is conn.transport for t in net.open), "the only open connection is the current one")
                if r[0] == "ok":
                    ex.require(bool(conn.is_connected), "after a successful set-up the connection reports itself connected (otherwise every request opens another one)")
                    break
            # the accessory closes one of the connections made so far (possibly an abandoned one)
            if stale != "none" and stale < len(made) and made[stale] is not None:
                victim = made[stale]
                cur = conn.transport
                cur_closed_before = cur.closed if cur is not None else None
                if victim.closed:
                    victim.deliver_lost()  # late connection_lost of a connection the controller closed earlier
                else:
                    victim.peer_close()
                if cur is not None and victim is not cur:
                    ex.tag("stale-close")
                    ex.require(cur.closed == cur_closed_before and conn.transport is cur and conn.protocol is not None,
                               "loss of an abandoned connection does not disturb the connection in use")
                ex.require(len(net.open) <= 1 and all(t is conn.transport for t in net.open), "still at most one open connection, the current one")
            if do_close:
                ex.tag("close")
                task = conn._connector = None if connector == "none" else FakeTask(connector)
                if conn.transport is not None and not conn.transport.closed and ex.fresh_bool("peer_reset_not_yet_reported"):
                    conn.transport.reset = True
                    ex.tag("reset-before-close")
                r = drive(conn.close())
                ex.require(r[0] == "ok", "close() completes without raising (connector: %s)" % connector)
                ex.require(not net.open, "close() leaves no connection open")
                ex.require(bool(conn.closing), "close() marks the connection as closing, whether or not a socket is held")
                if connector == "running":
                    ex.require(task.cancel_calls >= 1, "close() stops a running connector, whether or not a socket is held")
        return ex.observe([len(net.all), len(net.open)])
    return h


def stop_connector_unit(M):
    """close() while the connector is in the middle of an attempt: close() cancels it and waits for it; a trigger that arrives
    while it waits (zeroconf update -> reconnect_soon, a poll -> ensure_connection) must not start a second connector"""
    def h(ex):
        trigger = ex.choice("trigger_while_close_waits", ["none", "reconnect_soon", "_start_reconnecting"])
        net = Net()
        with Env(M, net) as env:
            conn = new_conn(M, env)

            class SlowTask(FakeTask):
                """a connector that needs one more loop iteration to finish after being cancelled"""

                def __await__(self):
                    yield self
                    self.st = "finished-cancelled"
                    raise asyncio.CancelledError()

            task = conn._connector = SlowTask("running")
            coro = conn.close()
            try:
                coro.send(None)
                suspended = True
            except StopIteration:
                suspended = False
            ex.require(suspended and task.cancel_calls >= 1, "close() cancels the running connector and waits for it")
            if suspended:
                if trigger != "none":
                    getattr(conn, trigger)()
                ex.require(not env.tasks, "no second connector is started while close() is stopping the first one")
                try:
                    coro.send(None)
                    ex.require(False, "(harness) close() finishes")
                except StopIteration:
                    pass
            ex.require(not net.open, "close() leaves no connection open")
        return ex.observe([trigger, len(env.tasks)])
    return h


def build(tier, mutate=None):
    C = copies(mutate)
    R = real_ipc
    def unit(K, outcomes):
        return Unit("history/K=%d/%d-outcomes" % (K, len(outcomes)), history_unit(C, K, outcomes), history_unit(R, K, outcomes), split=True,
                    bounds={"attempts": K, "set-up outcomes": outcomes, "hosts": HOSTS, "late connection_lost between M1 and M2 of a later attempt": "none or any attempt", "peer closes / late connection_lost": "none or any connection made so far", "close()": "with connector none / running / finished (ok, auth error, connection error)"},
                    regions=["failed-setup", "stale-close", "close", "late-loss-mid-verify"], diff_sample=300)
    units = [unit(2, OUTCOMES)]
    if tier != "canary":
        units.append(Unit("close/trigger-while-the-connector-is-being-stopped", stop_connector_unit(C), stop_connector_unit(R),
                          bounds={"trigger": "none / reconnect_soon / _start_reconnecting while close() awaits the cancelled connector"}))
        # shutdown() marks the pairing before it awaits close(), so nothing that arrives meanwhile reopens it (unit of C10)
        from . import c10
        CP = load(c10.IPP, deps={IPC: C}, src_transform=(mutate or {}).get(c10.IPP), symbolic=False)
        units.append(Unit("shutdown/update-while-closing (unit of C10)", c10.shutdown_unit(C, CP), c10.shutdown_unit(R, c10.real_ipp),
                          bounds={"connector": "none / running / finished", "interleaved": "one zeroconf update while close() is suspended"}))
    if tier == "thorough":
        # three attempts with one outcome per handler branch of _connect_once (13^3 x 240 histories is out of the time budget)
        units.append(unit(3, REPRESENTATIVES))
    return units


CANARIES = [
    ("wrong-pairing-id branch no longer drops", {IPC: lambda s: s.replace("                self._drop_transport()\n                raise\n\n        # Secure session has been negotiated", "                raise\n\n        # Secure session has been negotiated")}, None),
    ("close() does not drop the transport", {IPC: lambda s: s.replace("        await self._stop_connector()\n\n        self._drop_transport()\n        self.is_secure = None", "        await self._stop_connector()\n\n        self.is_secure = None")}, None),
    ("post_tlv keeps the socket after an HTTP error", {IPC: lambda s: s.replace("        except HttpErrorResponse as e:\n            self.transport.close()\n            response = e.response", "        except HttpErrorResponse as e:\n            response = e.response")}, None),
]

ASSUMPTIONS = [
    "PARTIAL: histories of at most K connection attempts (set-up outcome by selector), one peer-initiated close of any connection made so far, and close() with the connector in each state; every symbolic variable is a discrete selector, so the guarantee equals bounded exhaustive exploration of fault histories of the real coroutines",
    "network model: every transport handed out by the stubbed loop.create_connection is a recorder; closing it from the accessory side delivers connection_lost to the protocol it was last bound to; get_session_keys is a scripted generator (its own behaviour is C01); request futures are resolved immediately",
    "NOT decided: real sockets, the connector as a real Task, a close() racing with a running attempt, happy-eyeballs (need a running loop)",
]


def main(tier, seed, only=None):
    units = common.filter_units(build(tier), only)
    can = None
    if tier == "thorough" and only is None:
        can = lambda: run_canaries(lambda mut: build("canary", mut), CANARIES, seed)
    return check_property(
        PROP, units, tier, seed,
        explanation="The real connection set-up, request and tear-down code of ip/connection.py runs against a harness-side network model "
                    "for every bounded history of set-up outcomes, peer closes and close(): after every step at most one connection is "
                    "open and it is the current one, a failed set-up and close() leave none open, close() never raises, a stale "
                    "connection_lost does not disturb the current connection.",
        assumptions=ASSUMPTIONS, stubs=["event loop / happy eyeballs / timeout / task creation -> fake", "get_session_keys -> scripted generator"],
        bounds={"tier": tier}, canaries=can, design_ref="DESIGN.md section 5, C11")


def replay(doc):
    return common.std_replay(PROP, build("thorough"), doc)
