"""C19, waiter half: async_find of the BLE and the mDNS controller, hand-driven.

Every waiter is the real async_find coroutine.  It suspends at most once, on its own future; the harness plays the part of
the event loop for exactly three things, each a documented asyncio behaviour:
  * a coroutine whose awaited future is done is resumed (in either order when two are ready),
  * Task.cancel(): the awaited future is cancelled and CancelledError is raised at the await,
  * a timer (loop.call_later callback, or asyncio.timeout = Task.cancel() turned into TimeoutError on exit) fires.
Futures are harness objects with asyncio.Future's state machine (set_result/set_exception on a finished future raise
InvalidStateError).  The schedule is a bounded sequence of symbolic selectors over {next waiter starts, advertisement for
id x processed, malformed advertisement, waiter k cancelled, waiter k's timeout fires}."""
import asyncio
import ipaddress

import aiohomekit.controller.ble.controller as real_ctl
import aiohomekit.zeroconf as real_zc

from symx import load
from symx.rope import SymBytes

from . import ble_adv as BA
from .refs import rope

ZC = "aiohomekit.zeroconf"
ID_A, ID_B = BA.ADV_ID_STR, "11:22:33:44:55:66"
RAW = {ID_A: BA.ADV_ID, ID_B: BA.OTHER_ADV_ID}


class FFut:
    """asyncio.Future's state machine without a loop"""

    def __init__(self):
        self.state, self._r, self._e = "PENDING", None, None

    def done(self):
        return self.state != "PENDING"

    def cancelled(self):
        return self.state == "CANCELLED"

    def set_result(self, r):
        if self.state != "PENDING":
            raise asyncio.InvalidStateError("invalid state")
        self.state, self._r = "FINISHED", r

    def set_exception(self, e):
        if self.state != "PENDING":
            raise asyncio.InvalidStateError("invalid state")
        self.state, self._e = "FINISHED", (e() if isinstance(e, type) else e)

    def cancel(self, msg=None):
        if self.state != "PENDING":
            return False
        self.state = "CANCELLED"
        return True

    def __await__(self):
        if self.state == "PENDING":
            yield self
        if self.state == "CANCELLED":
            raise asyncio.CancelledError()
        if self.state == "PENDING":
            raise RuntimeError("await wasn't used with future")
        if self._e is not None:
            raise self._e
        return self._r

    __iter__ = __await__


class Timer:
    def __init__(self, cb, args):
        self.cb, self.args, self.cancelled = cb, args, False

    def cancel(self):
        self.cancelled = True


class FLoop:
    def __init__(self):
        self.timers = []

    def create_future(self):
        return FFut()

    def call_later(self, delay, cb, *args):
        t = Timer(cb, args)
        self.timers.append(t)
        return t

    def call_at(self, when, cb, *args):
        return self.call_later(0, cb, *args)

    def time(self):
        return 0.0


class FakeTimeout:
    """asyncio.timeout(): on expiry the task is cancelled; leaving the block turns that CancelledError into TimeoutError"""
    registry = []

    def __init__(self, delay):
        self.fired = False

    async def __aenter__(self):
        FakeTimeout.registry.append(self)
        return self

    async def __aexit__(self, et, ev, tb):
        if self.fired and et is not None and issubclass(et, asyncio.CancelledError):
            raise asyncio.TimeoutError() from ev
        return False


class AsyncioProxy:
    """the asyncio module, except that the running loop is the harness loop"""

    def __init__(self, loop):
        self._loop = loop

    def get_running_loop(self):
        return self._loop

    def __getattr__(self, k):
        return getattr(asyncio, k)


class Waiter:
    def __init__(self, coro):
        self.coro, self.state, self.awaiting, self.value, self.timeout, self.must_cancel = coro, "new", None, None, None, False

    def step(self):
        try:
            if self.must_cancel:
                self.must_cancel = False
                self.awaiting = self.coro.throw(asyncio.CancelledError())
            else:
                self.awaiting = self.coro.send(None)
            self.state = "suspended"
        except StopIteration as r:
            self.state, self.value = "returned", r.value
        except asyncio.CancelledError:
            self.state = "cancelled"
        except Exception as e:  # noqa
            self.state, self.value = "raised", e

    def ready(self):
        return self.state == "suspended" and (self.awaiting.done() or self.must_cancel)

    def task_cancel(self):
        """Task.cancel() while suspended on a future: the future is cancelled (its wake-up is scheduled); if the future is
        already done the task is marked and CancelledError is thrown in when it is resumed"""
        if not self.awaiting.cancel():
            self.must_cancel = True


class Dev:
    name, address = "name", "aa:bb"


class Discovery:
    def __init__(self, ctl, device, description, adv):
        self.description, self.device = description, device

    def _async_process_advertisement(self, device, description, adv):
        self.description = description


class RecPairing:
    """a loaded pairing as the controller sees it"""

    def __init__(self):
        self.updates = []

    def _async_description_update(self, d):
        self.updates.append(d)

    def _async_ble_update(self, device, adv):
        pass

    def _async_notification(self, data):
        pass


# ------------------------------------------------------------------ BLE
class BleWorld:
    name = "ble"
    ids = [ID_A, ID_B]

    def __init__(self, M, with_pairing):
        self.M = M
        mod = M.ctl
        self.loop = FLoop()
        FakeTimeout.registry = []
        self.saved = (mod.asyncio, mod.asyncio_timeout, mod.BleDiscovery)
        mod.asyncio, mod.asyncio_timeout, mod.BleDiscovery = AsyncioProxy(self.loop), FakeTimeout, Discovery
        c = self.ctl = object.__new__(mod.BleController)
        c.pairings = {ID_A: RecPairing()} if with_pairing else {}
        c.aliases, c.discoveries, c._ble_futures, c._scanner = {}, {}, {}, None

    def close(self):
        mod = self.M.ctl
        mod.asyncio, mod.asyncio_timeout, mod.BleDiscovery = self.saved

    def find(self, device_id):
        n = len(FakeTimeout.registry)
        w = Waiter(self.ctl.async_find(device_id, 5))
        w.step()
        if len(FakeTimeout.registry) > n:
            w.timeout = FakeTimeout.registry[-1]
        return w

    def fire_timeout(self, w):
        if w.timeout is None:
            return False
        w.timeout.fired = True
        w.task_cancel()
        return True

    def advertise(self, ident, malformed=False):
        data = b"\x06\x31\x00" + RAW[ident] + b"\x05\x00\x02\x00\x01\x02" + b"\xaa\xbb\xcc\xdd"
        if malformed:
            data = data[:11]
        if self.M.sym:
            data = SymBytes(rope(data).segs)

        class Adv:
            manufacturer_data = {76: data}

        self.ctl._device_detected(Dev(), Adv())

    def discovery_id(self, d):
        return d.description.id


# ------------------------------------------------------------------ mDNS
class Info:
    type = "_hap._tcp.local."
    port = 8080

    def __init__(self, name, props, addrs):
        self.name, self.decoded_properties, self._addrs = name + "." + self.type, props, addrs

    def ip_addresses_by_version(self, v):
        return [ipaddress.ip_address(a) for a in self._addrs]

    def load_from_cache(self, zc, now=None):
        return True


class MdnsWorld:
    name = "mdns"
    ids = [ID_A, ID_B]

    def __init__(self, M, with_pairing):
        self.M = M
        zc = M.zc
        self.loop = FLoop()
        ns = {n: (lambda self, *a, **k: None) for n in zc.ZeroconfController.__abstractmethods__}
        dns = {n: (lambda self, *a, **k: None) for n in zc.ZeroconfDiscovery.__abstractmethods__}
        disc = type("HarnessZeroconfDiscovery", (zc.ZeroconfDiscovery,), dns)
        ns.update(hap_type="_hap._tcp.local.", _make_discovery=lambda self, d: disc(d))
        cls = type("HarnessZeroconfController", (zc.ZeroconfController,), ns)
        c = self.ctl = object.__new__(cls)
        c.pairings = {ID_A: RecPairing()} if with_pairing else {}
        c.aliases, c.discoveries, c._waiters, c._resolve_later = {}, {}, {}, {}
        c._loop, c._running = self.loop, True
        c._async_zeroconf_instance = type("AZC", (), {"zeroconf": object()})()
        self.records = {}
        self.route = "direct"
        self.saved = zc.AsyncServiceInfo
        zc.AsyncServiceInfo = lambda type_, name: self.records[name]  # the record the zeroconf cache holds for that name

    def close(self):
        self.M.zc.AsyncServiceInfo = self.saved

    def find(self, device_id):
        n = len(self.loop.timers)
        w = Waiter(self.ctl.async_find(device_id, 5))
        w.step()
        if len(self.loop.timers) > n:
            w.timeout = self.loop.timers[-1]
        return w

    def fire_timeout(self, w):
        t = w.timeout
        if t is None or t.cancelled:
            return False
        t.cb(*t.args)  # the loop runs the call_later callback
        return True

    def advertise(self, ident, malformed=False, spelling="lower"):
        props = {"id": ident, "c#": "2", "s#": "5", "sf": "0", "ci": "5", "md": "model"}
        if spelling == "upper":
            props = {k.upper(): v.upper() for k, v in props.items()}
        addrs = ["fe80::1", "169.254.1.1"] if malformed else ["fe80::1", "10.0.0.7", "2001:db8::7"]
        info = Info("dev-" + ident[:2], props, addrs)
        if self.route == "direct":
            self.ctl._async_handle_loaded_service_info(info)
            return
        # through the browser callback: the name is queued for resolution, the 0.5 s timer fires, the record is loaded
        from zeroconf import ServiceStateChange
        self.records[info.name] = info
        if self.route == "browser-after-goodbye":
            # the accessory restarts: Added, then a goodbye within the 0.5 s resolve delay, then it is back
            self.ctl._handle_service(None, info.type, info.name, ServiceStateChange.Added)
            self.ctl._handle_service(None, info.type, info.name, ServiceStateChange.Removed)
        n = len(self.loop.timers)
        self.ctl._handle_service(None, info.type, info.name, ServiceStateChange.Updated)
        for t in self.loop.timers[n:]:
            if not t.cancelled:
                t.cb(*t.args)

    def discovery_id(self, d):
        return d.description.id


def copies_zc(M, mutate=None):
    """module copy of zeroconf.py next to the BLE copies of harness/ble_adv.py"""
    M.zc = load(ZC, deps={BA.ABSTRACT: M.abstract}, src_transform=(mutate or {}).get(ZC), symbolic=False)
    return M


def reals_zc(M):
    M.zc = real_zc
    return M


EVENTS2 = ["start-next", "adv-A", "adv-B", "adv-malformed", "cancel-0", "cancel-1", "timeout-0", "timeout-1"]
EVENTS3 = EVENTS2 + ["cancel-2", "timeout-2"]


def waiter_unit(M, World, n_waiters, depth):
    """model: a waiter is completed by the first valid advertisement for its id that is processed while it waits (or returns at
    once when the device is already known); otherwise it fails with AccessoryNotFoundError at its timeout, or is cancelled"""
    events = EVENTS2 if n_waiters == 2 else EVENTS3

    def h(ex):
        with_pairing = ex.fresh_bool("pairing_loaded_for_A")
        if n_waiters == 2:
            ids = list(ex.choice("waiter_ids", [(ID_A, ID_A), (ID_A, ID_B), (ID_B, ID_A)]))
        else:
            ids = [ex.choice("waiter%d_id" % k, World.ids) for k in range(n_waiters)]
        spelling, adv_spelling = ex.choice("id_spelling(waiter,advertised)", [("lower", "lower"), ("upper", "lower"), ("lower", "upper")]) if World.name == "mdns" else ("lower", "lower")
        W = World(M, with_pairing)
        if World.name == "mdns":
            W.route = ex.choice("record_arrives_via", ["direct", "browser", "browser-after-goodbye"])
        waiters, expect, known = [], [], set()
        try:
            for i in range(depth):
                ev = ex.choice("event%d" % i, events)
                raised = None
                try:
                    if ev == "start-next":
                        ex.assume(len(waiters) < n_waiters)
                        k = len(waiters)
                        w = W.find(ids[k].upper() if spelling == "upper" else ids[k])
                        waiters.append(w)
                        expect.append("returned" if ids[k] in known else "suspended")
                    elif ev.startswith("adv-"):
                        if ev == "adv-malformed":
                            W.advertise(ID_A, malformed=True)
                        else:
                            ident = ID_A if ev == "adv-A" else ID_B
                            if World.name == "mdns":
                                W.advertise(ident, spelling=adv_spelling)
                            else:
                                W.advertise(ident)
                            known.add(ident)
                            for k, w in enumerate(waiters):
                                if expect[k] == "suspended" and ids[k] == ident:
                                    expect[k] = "returned"
                    else:
                        kind, k = ev.split("-")
                        k = int(k)
                        ex.assume(k < len(waiters) and waiters[k].state == "suspended" and expect[k] in ("suspended", "returned"))
                        w = waiters[k]
                        if kind == "cancel":
                            w.task_cancel()
                            expect[k] = "cancelled"
                        else:
                            had_result = w.awaiting.done()
                            ex.assume(W.fire_timeout(w))
                            if World.name == "ble" or not had_result:
                                # asyncio.timeout cancels the task even if its future has just been completed; the mDNS timer
                                # callback leaves a completed future alone
                                expect[k] = "not-found"
                except Exception as e:  # noqa
                    raised = e
                ex.require(raised is None, "no advertisement, timer or cancellation makes a controller callback raise (%s)" % W.name)
                if raised is not None:
                    return ex.observe(["raised", type(raised).__name__])
                # the loop resumes every coroutine whose future is done - now, or only after the next callback it has queued
                lag = i + 1 < depth and any(w.ready() for w in waiters) and ex.fresh_bool("next_callback_runs_before_wakeups%d" % i)
                if not lag:
                    resume_reversed = sum(1 for w in waiters if w.ready()) >= 2 and ex.fresh_bool("resume_order_reversed%d" % i)
                    order = list(reversed(waiters)) if resume_reversed else list(waiters)
                    for w in order:
                        if w.ready():
                            w.step()
                ok = True
                for k, w in enumerate(waiters):
                    if w.ready():
                        continue  # its wake-up is still queued
                    got = w.state
                    if got == "raised":
                        got = "not-found" if type(w.value).__name__ == "AccessoryNotFoundError" else "raised:" + type(w.value).__name__
                    if expect[k] == "returned":
                        ex.tag("woken")
                        ok &= ex.require(got == "returned", "a waiter is completed as soon as a valid advertisement for its id is processed (%s)" % W.name)
                        if got == "returned":
                            ok &= ex.require(w.value is not None and W.discovery_id(w.value) == ids[k], "the waiter gets the discovery of the id it asked for")
                    elif expect[k] == "suspended":
                        ok &= ex.require(got == "suspended", "a waiter keeps waiting while nothing for its id has arrived (%s)" % W.name)
                    elif expect[k] == "not-found":
                        ex.tag("timed-out")
                        ok &= ex.require(got == "not-found", "a waiter whose timeout fires fails with AccessoryNotFoundError (%s)" % W.name)
                    else:
                        ex.tag("cancelled")
                        ok &= ex.require(got == "cancelled", "a cancelled waiter ends with CancelledError (%s)" % W.name)
                if not ok:
                    return ex.observe(["stopped at the first failed obligation", i])
            return ex.observe([w.state for w in waiters])
        finally:
            W.close()
    return h


ADDRS = [[], ["fe80::1"], ["169.254.7.7"], ["0.0.0.0"], ["::"], ["10.0.0.7"], ["fe80::1", "10.0.0.7"], ["169.254.1.1", "10.0.0.7", "10.0.0.8"],
         ["10.0.0.8", "fe80::2", "2001:db8::7"], ["2001:db8::7"], ["0.0.0.0", "2001:db8::7", "fe80::3"]]


def mdns_parse_unit(M):
    """HomeKitService.from_service_info: id and key spelling, address filtering and order, numbers"""
    def h(ex):
        addrs = ex.choice("addresses", ADDRS)
        key_case = ex.choice("key_case", ["lower", "upper", "mixed"])
        id_case = ex.choice("id_case", ["lower", "upper"])
        has_id = ex.fresh_bool("has_id")
        nums = ex.choice("numbers", ["all", "none"])
        bare = ex.choice("key_without_value", ["none", "id", "c#", "md", "sf"])  # a TXT key that is present without '=value'
        props = {"md": "Model X", "pv": "1.1"}
        if has_id:
            props["id"] = ID_A if id_case == "lower" else ID_A.upper()
        if nums == "all":
            props.update({"c#": "12", "s#": "345", "sf": "1", "ci": "7", "ff": "2"})
        if bare != "none":
            props[bare] = None
            if bare == "id":
                has_id = False
        if key_case == "upper":
            props = {k.upper(): v for k, v in props.items()}
        elif key_case == "mixed":
            props = {k.capitalize(): v for k, v in props.items()}
        usable = [a for a in addrs if not ipaddress.ip_address(a).is_link_local and not ipaddress.ip_address(a).is_unspecified]
        try:
            d = M.zc.HomeKitService.from_service_info(Info("My Device", props, addrs))
        except ValueError:
            ex.tag("refused")
            ex.require(not usable or not has_id, "ValueError only without a usable address or without an id")
            return ex.observe("ValueError")
        ex.require(bool(usable) and has_id, "a record without a usable address or without an id is refused with ValueError")
        if not (usable and has_id):
            return ex.observe("parsed-malformed")
        ex.tag("parsed")
        ex.require(d.id == ID_A, "the id is reported in lower case whatever the spelling of key and value")
        ex.require(d.address == usable[0] and d.addresses == usable, "link-local and unspecified addresses are skipped, order kept (IPv4 first as zeroconf lists them)")
        want = [12, 345, 1, 7, 2] if nums == "all" else [0, 0, 0, 1, 0]
        if bare == "c#":
            want[0] = 0
        if bare == "sf":
            want[2] = 0
        ex.require([d.config_num, d.state_num, int(d.status_flags), int(d.category), int(d.feature_flags)] == want,
                   "configuration / state number, status flags, category and feature flags are the advertised ones (defaults when absent or without a value)")
        ex.require(d.name == "My Device" and d.port == 8080 and d.model == ("" if bare == "md" else "Model X") and d.protocol_version == "1.1",
                   "name, port, model and protocol version are the advertised ones")
        return ex.observe([d.id, d.address])
    return h


CACHE_ORDERS = [["A"], ["bad", "A"], ["A", "bad", "B"], ["bad", "bad", "B"], ["B", "A", "bad"]]


def startup_cache_unit(M):
    """ZeroconfController._async_update_from_cache: every well-formed cached record is processed, a malformed PTR target is skipped"""
    def h(ex):
        order = ex.choice("cached_ptr_records", CACHE_ORDERS)
        W = MdnsWorld(M, ex.fresh_bool("pairing_loaded_for_A"))
        try:
            zc = M.zc
            infos = {"A": Info("dev-aa", {"id": ID_A, "c#": "1", "s#": "1", "sf": "0", "ci": "5"}, ["10.0.0.7"]),
                     "B": Info("dev-11", {"id": ID_B, "c#": "1", "s#": "1", "sf": "0", "ci": "5"}, ["10.0.0.8"])}

            class Rec:
                def __init__(self, alias):
                    self.alias = alias

            def make(type_, name):
                if name.startswith("bad"):
                    raise zc.BadTypeInNameException("Type '%s' must end with '._tcp.local.' or '._udp.local.'" % name)
                return infos[name]

            zc.AsyncServiceInfo = make
            W.ctl._async_get_ptr_records = lambda z: [Rec("bad.example." if k == "bad" else k) for k in order]

            class Z:
                pass

            coro = W.ctl._async_update_from_cache(Z())
            try:
                coro.send(None)
                done = False
            except StopIteration:
                done = True
            ex.require(done, "(harness) nothing suspends: every record is in the cache")
            want = {ID_A if k == "A" else ID_B for k in order if k != "bad"}
            ex.require(set(W.ctl.discoveries) == want, "every well-formed cached record becomes a discovery, whatever malformed records precede it")
            if "A" in order and W.ctl.pairings:
                ex.require(len(W.ctl.pairings[ID_A].updates) == 1, "a loaded pairing is told about its cached record")
        finally:
            W.close()
        return ex.observe(sorted(W.ctl.discoveries))
    return h
