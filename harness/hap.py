"""HAP pairing environments for C01/C03/C04: ideal (Dolev-Yao) primitives injected into the module copy of
aiohomekit/protocol/__init__.py, and a real-crypto counterpart used for replay / differential on the real
library.  Both are driven by the same scenario code through the Backend interface."""
import hashlib
import os

from cryptography.exceptions import InvalidSignature, InvalidTag
from cryptography.hazmat.primitives import serialization as real_ser
from cryptography.hazmat.primitives.asymmetric import ed25519 as real_ed
from cryptography.hazmat.primitives.asymmetric import x25519 as real_x
from cryptography.hazmat.primitives.ciphers.aead import ChaCha20Poly1305
from cryptography.hazmat.primitives.kdf.hkdf import HKDF
from cryptography.hazmat.primitives import hashes

from symx import as_rope, decide, rope_eq, slen
from symx.core import ex as cur_ex
from symx.ideal import IdealAEAD, World, ideal_aead_class
from symx.rope import HexOf, SymBytes, cseg

from .refs import rope

NONCE4 = b"\x00\x00\x00\x00"
LT = {  # long-term Ed25519 identities (concrete bytes in both worlds so that hex round trips work)
    "A": bytes([0xA5]) * 32,  # the paired accessory
    "B": bytes([0xB5]) * 32,  # some other accessory
    "C": bytes([0xC5]) * 32,  # the controller (iOSDeviceLTSK)
}
ACC_ID = "AA:BB:CC"
OTHER_ID = "ZZ:YY:XX"
IOS_ID = "ctl-1"


def real_lt_pub(name):
    return real_ed.Ed25519PrivateKey.from_private_bytes(LT[name]).public_key().public_bytes(real_ser.Encoding.Raw, real_ser.PublicFormat.Raw)


LT_PUB = {n: real_lt_pub(n) for n in LT}


def pairing_data():
    return {"AccessoryPairingID": ACC_ID, "AccessoryLTPK": LT_PUB["A"].hex(), "iOSPairingId": IOS_ID,
            "iOSDeviceLTSK": LT["C"].hex(), "iOSDeviceLTPK": LT_PUB["C"].hex()}


# =================================================================== ideal primitives (module-copy side)
class _W:
    @staticmethod
    def get():
        W = World.get()
        if not hasattr(W, "sigs"):
            W.sigs = []  # (owner, msg rope, sig rope)
            W.eph = 0
            W.gen_ed = 0
        return W


class XPub:
    def __init__(self, owner, raw):
        self.owner, self.raw = owner, raw  # owner: name of the private key, or None

    def public_bytes(self, encoding=None, format=None):
        return SymBytes(as_rope(self.raw).segs)

    @staticmethod
    def from_public_bytes(b):
        b = as_rope(b)
        if decide(b.length() != 32):
            raise ValueError("An X25519 public key is 32 bytes long")
        W = _W.get()
        meta = W.whole_term(b)
        if meta is not None and meta["key"][0] == "xpub":
            return XPub(meta["key"][1], b)
        # arbitrary bytes may coincide with a public key the world knows (the adversary replays it)
        for key, val in list(W.by_term.items()):
            if key[0] == "xpub" and decide(b == val):
                return XPub(key[1], b)
        return XPub(None, b)


class XPriv:
    def __init__(self, name):
        self.name = name

    @staticmethod
    def generate():
        try:
            W = _W.get()
        except Exception:  # called while the module is being loaded (no path yet): one process-wide key
            return XPriv("eC-import-time")
        W.eph += 1
        return XPriv("eC%d" % W.eph)

    def public_key(self):
        return XPub(self.name, _W.get().term(("xpub", self.name), 32))

    def exchange(self, pub):
        W = _W.get()
        other = pub.owner if pub.owner is not None else ("raw", W.ident(pub.raw))
        return W.term(("dh", frozenset([self.name, other])), 32)


class EdPub:
    def __init__(self, owner, raw):
        self.owner, self.raw = owner, raw

    def public_bytes(self, encoding=None, format=None):
        return self.raw if isinstance(self.raw, bytes) else SymBytes(as_rope(self.raw).segs)

    @staticmethod
    def from_public_bytes(b):
        b = as_rope(b)
        if decide(b.length() != 32):
            raise ValueError("An Ed25519 public key is 32 bytes long")
        W = _W.get()
        for n, pk in LT_PUB.items():
            if decide(b == pk):
                return EdPub(n, pk)
        meta = W.whole_term(b)
        if meta is not None and meta["key"][0] == "edpub":
            return EdPub(meta["key"][1], b)
        return EdPub(None, b)

    def verify(self, sig, msg):
        W = _W.get()
        sig, msg = as_rope(sig), as_rope(msg)
        if self.owner is not None:
            for owner, m, s in W.sigs:
                if owner == self.owner and decide(sig == s) and decide(msg == m):
                    return None
        raise InvalidSignature()


class EdPriv:
    def __init__(self, name):
        self.name = name

    @staticmethod
    def generate():
        W = _W.get()
        W.gen_ed += 1
        return EdPriv("gen%d" % W.gen_ed)

    @staticmethod
    def from_private_bytes(b):
        c = as_rope(b).concrete_or_none()
        for n, sk in LT.items():
            if c == sk:
                return EdPriv(n)
        raise ValueError("ideal Ed25519: unknown private key bytes")

    def public_key(self):
        if self.name in LT_PUB:
            return EdPub(self.name, LT_PUB[self.name])
        return EdPub(self.name, _W.get().term(("edpub", self.name), 32))

    def private_bytes(self, encoding=None, format=None, encryption_algorithm=None):
        if self.name in LT:
            return LT[self.name]
        return _W.get().term(("edsk", self.name), 32)

    def sign(self, msg):
        W = _W.get()
        msg = as_rope(msg)
        sig = W.term(("sig", self.name, len(W.sigs)), 64)
        W.sigs.append((self.name, msg, sig))
        return SymBytes(sig.segs)


class _NS:
    pass


ideal_x25519 = _NS()
ideal_x25519.X25519PrivateKey, ideal_x25519.X25519PublicKey = XPriv, XPub
ideal_ed25519 = _NS()
ideal_ed25519.Ed25519PrivateKey, ideal_ed25519.Ed25519PublicKey = EdPriv, EdPub


def ideal_hkdf(ikm, salt, info, length=32):
    W = _W.get()
    return W.term(("hkdf", W.ident(ikm), W.ident(salt), W.ident(info), length), length)


def ideal_hexlify(b):
    c = as_rope(b).concrete_or_none()
    if c is not None:
        import binascii
        return binascii.hexlify(c)
    return HexOf(as_rope(b))


class IdealSrpClient:
    """SRP as an ideal functionality: proofs and the session key are terms of (setup code, salt, B, A)"""

    def __init__(self, username, password):
        self.user, self.code = username, password
        W = _W.get()
        W.srp_n = getattr(W, "srp_n", 0) + 1
        self.n = W.srp_n

    def set_salt(self, salt):
        self.salt = as_rope(salt)

    def set_server_public_key(self, B):
        self.B = as_rope(B)

    def _ctx(self):
        W = _W.get()
        return (self.user, self.code, W.ident(self.salt), W.ident(self.B), self.n)

    def get_public_key_bytes(self):
        return _W.get().term(("srpA", self.n), 384)

    def get_proof_bytes(self):
        return _W.get().term(("srpM1",) + self._ctx(), 64)

    def verify_servers_proof_bytes(self, proof):
        return decide(as_rope(proof) == _W.get().term(("srpM2",) + self._ctx(), 64))

    def get_session_key_bytes(self):
        return _W.get().term(("srpK",) + self._ctx(), 64)


def patch_protocol_copy(P):
    """inject the ideal primitives into a module copy of aiohomekit.protocol"""
    P.x25519, P.ed25519 = ideal_x25519, ideal_ed25519
    P.ChaCha20Poly1305Encryptor = P.ChaCha20Poly1305Decryptor = ideal_aead_class(P.DecryptionError)
    P.hkdf_derive = ideal_hkdf
    P.SrpClient = IdealSrpClient
    P.hexlify = ideal_hexlify
    return P


# =================================================================== backends (harness / accessory side)
class SymBackend:
    """accessory + adversary in the ideal world"""
    sym = True

    def __init__(self, ex, P):
        self.ex, self.P = ex, P
        self.W = _W.get()
        self.aead = ideal_aead_class(P.DecryptionError)

    def eph_pub(self, name):
        return self.W.term(("xpub", name), 32)

    def dh(self, priv_name, pub_rope):
        return XPriv(priv_name).exchange(XPub.from_public_bytes(pub_rope))

    def hkdf(self, ikm, salt, info, length=32):
        return ideal_hkdf(ikm, salt, info, length)

    def encrypt(self, key, label, pt):
        return self.aead(key).encrypt(b"", NONCE4 + label, pt)

    def decrypt(self, key, label, ct):
        """plaintext or None"""
        try:
            return self.aead(key).decrypt(b"", NONCE4 + label, ct)
        except self.P.DecryptionError:
            return None

    def sign(self, lt, msg):
        return EdPriv(lt).sign(msg)

    def verify(self, lt, sig, msg):
        try:
            EdPub(lt, LT_PUB.get(lt)).verify(sig, msg)
            return True
        except InvalidSignature:
            return False

    def verify_pub(self, pub, sig, msg):
        try:
            EdPub.from_public_bytes(pub).verify(sig, msg)
            return True
        except (InvalidSignature, ValueError):
            return False

    def arbitrary(self, name, n, avoid=()):
        """adversary-chosen bytes.  `avoid`: values of the ideal world the bytes must differ from - a coincidence with
        one of them is not 'arbitrary bytes' but the replay of that value, which the scenario selectors cover explicitly
        (and which could not be replayed on the real library from the bytes alone)"""
        v = self.ex.fresh_bytes("adv_" + name, n)
        for a in avoid:
            a = as_rope(a)
            if isinstance(a.length(), int) and a.length() == n:
                r = rope_eq(v, a)
                if r is True:
                    self.ex.assume(False)
                elif r is not False:
                    self.ex.assume(~r)
        return v

    def known_values(self, kinds):
        """every term value of the given kinds the ideal world has produced so far"""
        return [v for k, v in self.W.by_term.items() if k[0] in kinds]

    def srp_server(self, code, client_A=None):
        return SymSrpServer(self, code)

    def b(self, x):
        return x

    def ba(self, x):
        from symx.rope import SymByteArray
        return SymByteArray(as_rope(x).segs)

    def tlv_value(self, x):
        return as_rope(x)


class SymSrpServer:
    def __init__(self, be, code, n=1):
        self.be, self.code, self.n = be, code, n
        self.salt = be.W.term(("srp-salt", code), 16)
        self.B = be.W.term(("srpB", code), 384)

    def _ctx(self):
        W = self.be.W
        return ("Pair-Setup", self.code, W.ident(self.salt), W.ident(self.B), self.n)

    def proof_m2(self, client_A, client_M1):
        """server proof (the accessory checks the client's proof first)"""
        W = self.be.W
        ok = decide(as_rope(client_M1) == W.term(("srpM1",) + self._ctx(), 64))
        return ok, W.term(("srpM2",) + self._ctx(), 64)

    def session_key(self):
        return self.be.W.term(("srpK",) + self._ctx(), 64)

    def next_exchange(self):
        """the same accessory (same code, salt and verifier) in the controller's next exchange"""
        return SymSrpServer(self.be, self.code, n=self.n + 1)


class RealBackend:
    """accessory + adversary with real cryptography (replay on the unmodified library)"""
    sym = False

    def __init__(self, ex, P):
        self.ex, self.P = ex, P
        self.keys = {}

    def _eph(self, name):
        if name not in self.keys:
            seed = hashlib.sha256(("eph-" + name).encode()).digest()
            self.keys[name] = real_x.X25519PrivateKey.from_private_bytes(seed)
        return self.keys[name]

    def eph_pub(self, name):
        return self._eph(name).public_key().public_bytes(real_ser.Encoding.Raw, real_ser.PublicFormat.Raw)

    def dh(self, priv_name, pub):
        return self._eph(priv_name).exchange(real_x.X25519PublicKey.from_public_bytes(bytes(pub)))

    def hkdf(self, ikm, salt, info, length=32):
        return HKDF(algorithm=hashes.SHA512(), length=length, salt=bytes(salt), info=bytes(info)).derive(bytes(ikm))

    def encrypt(self, key, label, pt):
        return ChaCha20Poly1305(bytes(key)).encrypt(NONCE4 + label, bytes(pt), b"")

    def decrypt(self, key, label, ct):
        try:
            return ChaCha20Poly1305(bytes(key)).decrypt(NONCE4 + label, bytes(ct), b"")
        except InvalidTag:
            return None

    def sign(self, lt, msg):
        return real_ed.Ed25519PrivateKey.from_private_bytes(LT[lt]).sign(bytes(msg))

    def verify(self, lt, sig, msg):
        return self.verify_pub(LT_PUB[lt], sig, msg)

    def verify_pub(self, pub, sig, msg):
        try:
            real_ed.Ed25519PublicKey.from_public_bytes(bytes(pub)).verify(bytes(sig), bytes(msg))
            return True
        except (InvalidSignature, ValueError):
            return False

    def arbitrary(self, name, n, avoid=()):
        return self.ex.fresh_bytes("adv_" + name, n)

    def known_values(self, kinds):
        return []

    def srp_server(self, code):
        return RealSrpServer(code)

    def b(self, x):
        return bytes(as_rope(x).concrete()) if isinstance(x, SymBytes) else bytes(x)

    def ba(self, x):
        return bytearray(self.b(x))

    def tlv_value(self, x):
        return bytes(x)


class RealSrpServer:
    def __init__(self, code):
        from aiohomekit.crypto.srp import SrpServer
        self.code = code
        self.srv = SrpServer("Pair-Setup", code)
        self.salt = self.srv.salt_b
        self.B = self.srv.get_public_key_bytes()

    def proof_m2(self, client_A, client_M1):
        self.srv.set_client_public_key(bytes(client_A))
        ok = self.srv.verify_clients_proof_bytes(bytes(client_M1))
        return ok, self.srv.get_proof_bytes(bytes(client_M1))

    def next_exchange(self):
        """the same accessory (same setup code, persisted salt and verifier) in a new exchange: a fresh server object, because
        SrpServer caches per-exchange values"""
        from aiohomekit.crypto.srp import HK_KEY_LENGTH, pad_left, to_byte_array
        new = RealSrpServer(self.code)
        s = new.srv
        s.salt_b, s.salt = self.srv.salt_b, self.srv.salt
        s.verifier = s._get_verifier()
        s.B = (s._calculate_k() * s.verifier + pow(s.g, s.b, s.n)) % s.n
        s.B_b = pad_left(to_byte_array(s.B), HK_KEY_LENGTH)
        new.salt, new.B = s.salt_b, s.get_public_key_bytes()
        return new

    def session_key(self):
        return self.srv.get_session_key_bytes()


def backend(ex, P):
    return RealBackend(ex, P) if getattr(ex, "concrete", False) else SymBackend(ex, P)


def cat(be, *parts):
    """concatenation in the backend's representation"""
    if be.sym:
        return rope(*parts)
    return b"".join(bytes(p) if not isinstance(p, str) else p.encode() for p in parts)
