"""C17 - HAP PDU fragmentation / reassembly (BLE) and batch attribution (CoAP).
Real code: aiohomekit/pdu.py, ble/client.py:_write_pdu/_read_pdu, ble/key.py, ble/bleak.py:_determine_fragment_size,
coap/pdu.py."""
import aiohomekit.controller.ble.bleak as real_bleak
import aiohomekit.controller.ble.client as real_client
import aiohomekit.controller.ble.key as real_key
import aiohomekit.controller.coap.connection as real_cconn
import aiohomekit.controller.coap.pdu as real_cpdu
import aiohomekit.pdu as real_pdu

from symx import Unit, as_rope, check_property, decide, drive, int_to_rope, load, rope_eq, run_canaries, slen
from symx.ideal import World, ideal_aead_class
from symx.rope import SymBytes

from . import common
from .refs import byte, rope

PROP = "C17"
CCONN = "aiohomekit.controller.coap.connection"
PDU, CLIENT, KEY, CPDU, BLEAK = ("aiohomekit.pdu", "aiohomekit.controller.ble.client", "aiohomekit.controller.ble.key",
                                 "aiohomekit.controller.coap.pdu", "aiohomekit.controller.ble.bleak")


class Mods:
    pass


def copies(mutate=None):
    mutate = mutate or {}
    m = Mods()
    m.pdu = load(PDU, src_transform=mutate.get(PDU))
    m.key = load(KEY, src_transform=mutate.get(KEY))
    m.client = load(CLIENT, deps={PDU: m.pdu, KEY: m.key}, src_transform=mutate.get(CLIENT))
    m.cpdu = load(CPDU, src_transform=mutate.get(CPDU))
    m.bleak = load(BLEAK, src_transform=mutate.get(BLEAK))
    m.cconn = load(CCONN, deps={CPDU: m.cpdu}, src_transform=mutate.get(CCONN))
    return m


def reals():
    m = Mods()
    m.pdu, m.key, m.client, m.cpdu, m.bleak, m.cconn = real_pdu, real_key, real_client, real_cpdu, real_bleak, real_cconn
    return m


def le(v, n):
    return int_to_rope(v, n, "little")


def is_sym(ex):
    return not getattr(ex, "concrete", False)


def B(ex, x):
    return x if is_sym(ex) else bytes(as_rope(x).concrete())


OPCODES = ["CHAR_SIG_READ", "CHAR_WRITE", "CHAR_READ", "CHAR_TIMED_WRITE", "CHAR_EXEC_WRITE", "SERV_SIG_READ", "CHAR_CONFIG", "PROTOCOL_CONFIG"]


def ref_reassemble(ex, frags, f, opcode_value, tid, iid, body, n, label):
    """reference accessory: first fragment `00 op tid iid16 len16 data`, continuation `80 tid data`"""
    ok = True
    for i, fr in enumerate(frags):
        ok &= ex.require(slen(fr) <= f, "%s: every fragment fits the negotiated size" % label)
    first = as_rope(frags[0])
    if decide(n == 0):
        ex.tag("empty-body")
        ex.require(len(frags) == 1, "%s: an empty body is a single fragment" % label)
        ex.require(rope_eq(first, rope(b"\x00", byte(opcode_value), byte(tid), le(iid, 2))), "%s: empty body gives the 5-byte header only" % label)
        return
    ex.require(decide(slen(first) >= 7), "%s: first fragment carries the 7-byte header" % label)
    ex.require(rope_eq(first.slice(0, 7), rope(b"\x00", byte(opcode_value), byte(tid), le(iid, 2), le(n, 2))),
               "%s: header is control 0, opcode, tid, LE16 iid, LE16 body length" % label)
    data = first.slice(7, None)
    for fr in frags[1:]:
        fr = as_rope(fr)
        ex.require(decide(slen(fr) >= 2), "%s: continuation has its 2-byte header" % label)
        ex.require(rope_eq(fr.slice(0, 2), rope(b"\x80", byte(tid))), "%s: continuation header is 0x80, tid" % label)
        data = data + fr.slice(2, None)
    ex.require(rope_eq(data, body), "%s: fragments reassemble to the body" % label)
    if len(frags) >= 3:
        ex.tag("three-fragments")


def ble_encode(M, maxfrag, nmax):
    def h(ex):
        f = ex.fresh_int("f", 8, 512)
        body = ex.fresh_bytes("body", 0, nmax, opaque=True)
        n = slen(body)
        ex.assume(n <= (f - 7) + (maxfrag - 1) * (f - 2))
        tid = ex.fresh_int("tid", 0, 255)
        iid = ex.fresh_int("iid", 0, 65535)
        op = getattr(M.pdu.OpCode, ex.choice("opcode", OPCODES))
        frags = list(M.pdu.encode_pdu(op, tid, iid, body, f))
        ex.require(1 <= len(frags) <= maxfrag, "ble-out: fragment count within the bound")
        ref_reassemble(ex, frags, f, op.value, tid, iid, body, n, "ble-out")
        return ex.observe([len(frags)] + [slen(x) for x in frags])
    return h


class Handle:
    def __init__(self, props=("write",), mwwr=None):
        self.properties = list(props)
        self.max_write_without_response_size = mwwr


def ble_write(M, maxfrag, nmax, encrypted):
    """_write_pdu: per-fragment encryption, every write fits the link, accessory reassembles"""
    def h(ex):
        sym = is_sym(ex)
        link = ex.fresh_int("link", 8 + (16 if encrypted else 0), 512)  # what one GATT write can carry (plaintext fragment size 8..512)
        body = ex.fresh_bytes("body", 0, nmax, opaque=True)
        n = slen(body)
        tid = ex.fresh_int("tid", 0, 255)
        iid = ex.fresh_int("iid", 0, 65535)
        c0 = ex.fresh_int("counter0", 0, 2 ** 40) if encrypted else 0
        writes = []

        class Client:
            def determine_fragment_size(self, overhead, handle):
                return link - overhead

            async def write_gatt_char(self, handle, data, response):
                writes.append(data)

        key = None
        if encrypted:
            if sym:
                M.key.ChaCha20Poly1305Encryptor = ideal_aead_class(M.key.DecryptionError)
                kb = World.get().term(("key", "c2a"), 32)
            else:
                kb = b"k" * 32
            key = M.key.EncryptionKey(kb)
            key.counter = c0
        f_plain = link - (16 if encrypted else 0)
        ex.assume(n <= (f_plain - 7) + (maxfrag - 1) * (f_plain - 2))
        drive(M.client._write_pdu(Client(), key, M.pdu.OpCode.CHAR_WRITE, Handle(), iid, B(ex, body), tid))
        frags = []
        for i, w in enumerate(writes):
            ex.require(slen(w) <= link, "ble-write: every GATT write fits the link (incl. the 16-byte tag)")
            if encrypted:
                if sym:
                    acc = ideal_aead_class(M.key.DecryptionError)(kb)
                    nonce = rope(b"\x00\x00\x00\x00", le(c0 + i, 8))
                    try:
                        frags.append(acc.decrypt(b"", nonce, w))
                    except M.key.DecryptionError:
                        ex.require(False, "ble-write: accessory decrypts fragment i with counter c0+i")
                        return ex.observe("undecryptable")
                else:
                    dk = M.key.DecryptionKey(kb)
                    dk.counter = c0 + i
                    frags.append(dk.decrypt(bytes(w)))
            else:
                frags.append(w)
        if encrypted:
            ex.require(key.counter == c0 + len(writes), "ble-write: encryption counter advanced once per fragment")
        ref_reassemble(ex, frags, f_plain, 2, tid, iid, body, n, "ble-write")
        return ex.observe([len(writes)] + [slen(x) for x in writes])
    return h


def ble_read(M, r, nmax, encrypted):
    """_read_pdu: response of n body bytes delivered in <= r pieces with symbolic control/tid per piece"""
    def h(ex):
        sym = is_sym(ex)
        body = ex.fresh_bytes("body", 0, nmax, opaque=True)
        n = slen(body)
        want_tid = ex.fresh_int("tid", 0, 255)
        status = ex.fresh_int("status", 0, 6)
        ctl0 = ex.fresh_int("ctl0", 0, 255)
        pieces = []
        pos = 0
        k_used = None
        hdrs = []
        for i in range(r):
            ctl = ctl0 if i == 0 else ex.fresh_int("ctl%d" % i, 0, 255)
            t = ex.fresh_int("tid%d" % i, 0, 255)
            d = ex.fresh_int("d%d" % i, 0, nmax)  # data bytes in this piece
            ex.assume(pos + d <= n)
            chunk = as_rope(body).slice(pos, pos + d)
            if i == 0:
                pieces.append(rope(byte(ctl), byte(t), byte(status), le(n, 2), chunk))
            else:
                pieces.append(rope(byte(ctl), byte(t), chunk))
            hdrs.append((ctl, t))
            pos = pos + d
        ex.assume(pos == n)  # the r pieces carry the whole body (pieces after completion are never read)
        c0 = ex.fresh_int("counter0", 0, 2 ** 40) if encrypted else 0
        if encrypted:
            if sym:
                M.key.ChaCha20Poly1305Decryptor = ideal_aead_class(M.key.DecryptionError)
                kb = World.get().term(("key", "a2c"), 32)
                acc = ideal_aead_class(M.key.DecryptionError)(kb)
                wire = [acc.encrypt(b"", rope(b"\x00\x00\x00\x00", le(c0 + i, 8)), p) for i, p in enumerate(pieces)]
            else:
                kb = b"a" * 32
                wire = []
                for i, p in enumerate(pieces):
                    ek = M.key.EncryptionKey(kb)
                    ek.counter = c0 + i
                    wire.append(ek.encrypt(bytes(p.concrete())))
            dkey = M.key.DecryptionKey(kb)
            dkey.counter = c0
        else:
            wire, dkey = pieces, None
        reads = []

        class Client:
            async def read_gatt_char(self, handle):
                if len(reads) >= len(wire):
                    raise EOFError("accessory has nothing more to send")
                reads.append(len(reads))
                return B(ex, wire[len(reads) - 1])

        # how many pieces are needed: first, then continuation pieces until n bytes have arrived
        needed = 1
        got = slen(pieces[0]) - 5
        while needed < r and decide(got < n):
            got = got + slen(pieces[needed]) - 2
            needed += 1
        # expected verdict (checked piece by piece, in the order the controller reads them)
        verdict = "ok"
        for i in range(needed):
            ctl, t = hdrs[i]
            if i > 0 and not decide(ctl // 128 % 2 == 1):
                verdict = "ValueError"
                break
            if not decide(t == want_tid):
                verdict = "ValueError"
                break
        try:
            st, data = drive(M.client._read_pdu(Client(), dkey, Handle(), want_tid))
        except ValueError:
            ex.tag("rejected")
            ex.require(verdict == "ValueError", "ble-in: ValueError only for a wrong tid or a missing continuation flag")
            return ex.observe("ValueError")
        ex.require(verdict == "ok", "ble-in: wrong tid / missing continuation flag must be rejected")
        ex.require(st.value == status, "ble-in: status is the accessory's")
        ex.require(rope_eq(data, body), "ble-in: body reassembled to what the accessory sent")
        ex.require(len(reads) == needed, "ble-in: reads exactly the pieces needed")
        if needed >= 2:
            ex.tag("multi-piece")
        return ex.observe([st.value, slen(data), len(reads)])
    return h


def ble_read_many(M, pieces_n):
    """_read_pdu: a response dribbled out in many one-byte continuation fragments (more than 50) is still reassembled completely"""
    def h(ex):
        sym = is_sym(ex)
        body = ex.fresh_bytes("body", pieces_n, opaque=True)
        tid = ex.fresh_int("tid", 0, 255)
        status = ex.fresh_int("status", 0, 6)
        r = as_rope(body)
        wire = [rope(byte(2), byte(tid), byte(status), le(pieces_n, 2), r.slice(0, 1))]
        wire += [rope(byte(0x82), byte(tid), r.slice(i, i + 1)) for i in range(1, pieces_n)]
        reads = []

        class Client:
            async def read_gatt_char(self, handle):
                if len(reads) >= len(wire):
                    raise EOFError("accessory has nothing more to send")
                reads.append(len(reads))
                return B(ex, wire[len(reads) - 1])

        st, data = drive(M.client._read_pdu(Client(), None, Handle(), tid))
        ex.require(st.value == status, "ble-in: status is the accessory's")
        ex.require(rope_eq(data, body), "ble-in: a body sent in %d fragments is reassembled to what the accessory sent" % pieces_n)
        ex.require(len(reads) == pieces_n, "ble-in: every fragment is read, none is left for the next transaction")
        return ex.observe([st.value, slen(data), len(reads)])
    return h


def fragment_size(M):
    def h(ex):
        mtu = ex.fresh_int("mtu", 23, 517)
        mwwr = ex.fresh_int("mwwr", 0, 512)
        overhead = ex.choice("overhead", [0, 16])
        f = M.bleak._determine_fragment_size.__wrapped__("addr", mtu, overhead, Handle(mwwr=mwwr))
        link = mwwr if decide(mwwr > mtu - 3) else mtu - 3
        ex.require(f + overhead <= link, "fragment-size: fragment plus encryption overhead fits the link")
        ex.require(f + overhead == link, "fragment-size: the link is used fully")
        return ex.observe(f)
    return h


# ------------------------------------------------------------------ CoAP
def coap_decode(M, k, lmax, status_dom=None):
    """decode_all_pdus on a reference-encoded batch with symbolic control/tid/status/length per item"""
    def h(ex):
        items = []
        wire = rope()
        start = ex.fresh_int("starting_tid", 0, 0)
        for i in range(k):
            ctl = ex.fresh_int("ctl%d" % i, 0, 255)
            tid = ex.fresh_int("tid%d" % i, 0, 255)
            st = ex.fresh_int("status%d" % i, 0, 6)
            if status_dom is not None:
                if not any(decide(st == v) for v in status_dom):
                    ex.assume(False)
            body = ex.fresh_bytes("body%d" % i, 0, lmax, opaque=True)
            items.append((ctl, tid, st, body))
            wire = wire + rope(byte(ctl), byte(tid), byte(st), le(slen(body), 2), body)
        res = M.cpdu.decode_all_pdus(start, B(ex, wire))
        ok = len(res) == k
        ex.require(ok, "coap: one result per batch item")
        obs = []
        if ok:
            for i, ((ctl, tid, st, body), r) in enumerate(zip(items, res)):
                S = M.cpdu.PDUStatus
                if not decide(tid == start + i):
                    want = S.TID_MISMATCH
                elif not decide(st == 0):
                    want = S(int(st)) if not is_sym(ex) else [m for m in S if decide(m.value == st)][0]
                elif not decide((ctl // 2) % 8 == 1):
                    want = S.BAD_CONTROL
                else:
                    want = None
                if want is None:
                    ex.tag("item-ok")
                    ex.require(not isinstance(r, S) and decide(rope_eq(r, body)), "coap: i-th result is the i-th item's body")
                    obs.append(slen(r) if not isinstance(r, S) else r.name)
                else:
                    ex.tag("item-error")
                    ex.require(r is want, "coap: a bad item becomes its own per-item error (tid, then status, then control)")
                    obs.append(r.name if isinstance(r, S) else "body")
        return ex.observe(obs)
    return h


def coap_encode(M, k, lmax):
    def h(ex):
        iids = [ex.fresh_int("iid%d" % i, 0, 65535) for i in range(k)]
        bodies = [ex.fresh_bytes("body%d" % i, 0, lmax, opaque=True) for i in range(k)]
        op = getattr(M.cpdu.OpCode, ex.choice("opcode", ["CHAR_WRITE", "CHAR_READ", "UNK_0B_SUBSCRIBE"]))
        got = M.cpdu.encode_all_pdus(op, iids, [B(ex, b) for b in bodies])
        want = rope()
        for i, (iid, b) in enumerate(zip(iids, bodies)):
            want = want + rope(b"\x00", byte(op.value), byte(i), le(iid, 2), le(slen(b), 2), b)
        ex.require(rope_eq(got, want), "coap: item i is `00 opcode i iid16 len16 body`")
        return ex.observe(slen(got))
    return h


ITEM_OUTCOMES = ["ok", "status-4", "status-6", "wrong-tid", "bad-control"]
PIPE_OPS = ["read_characteristics", "write_characteristics", "subscribe_to", "unsubscribe_from"]


def coap_pipeline(M, op, k):
    """request batch -> real encode_all_pdus -> reference accessory -> real decode_all_pdus -> real result mapper:
    the i-th outcome is attributed to the i-th requested characteristic"""
    def h(ex):
        outs = [ex.choice("item%d" % i, ITEM_OUTCOMES) for i in range(k)]
        ids = [(1, 10 + i) for i in range(k)]
        conn = object.__new__(M.cconn.CoAPHomeKitConnection)

        class Char:
            def __init__(self):
                self.value = None
                self.raw_value = b"\x01"

        class Info:
            def find_characteristic_by_iid(self, iid):
                return None

            def find_characteristic_by_aid_iid(self, aid, iid):
                return Char()

        conn.info = Info()
        seen = {}

        class Enc:
            async def post_all(self, opcode, iids, data):
                req = M.cpdu.encode_all_pdus(opcode, iids, data)
                # reference accessory: parse `00 op tid iid16 len16 body` items, answer each by its scripted outcome
                r = as_rope(req)
                pos, items = 0, []
                n = r.length()
                while decide(pos < n):
                    tid, iid, ln = r[pos + 2], r[pos + 3] + 256 * r[pos + 4], r[pos + 5] + 256 * r[pos + 6]
                    items.append((tid, iid))
                    pos = pos + 7 + ln
                seen["items"] = items
                resp = rope()
                for i, (tid, iid) in enumerate(items):
                    o = outs[i]
                    ctl = 0x00 if o == "bad-control" else 0x02
                    st = 4 if o == "status-4" else 6 if o == "status-6" else 0
                    t = tid + 1 if o == "wrong-tid" else tid
                    resp = resp + rope(bytes([ctl]), byte(t), bytes([st]), b"\x00\x00")
                return M.cpdu.decode_all_pdus(0, B(ex, resp))

        conn.enc_ctx = Enc()
        if op == "write_characteristics":
            res = drive(conn.write_characteristics([(a, i, 1) for a, i in ids]))
        else:
            res = drive(getattr(conn, op)(list(ids)))
        items = seen.get("items", [])
        ok = len(items) == k
        ex.require(ok, "coap-pipeline: one request item per characteristic")
        if ok:
            for i, (tid, iid) in enumerate(items):
                ex.require(tid == i and iid == ids[i][1], "coap-pipeline: item i carries transaction id i and the i-th instance id")
        for i, key in enumerate(ids):
            r = res.get(key)
            if outs[i] == "ok":
                ex.tag("item-ok")
                if op == "read_characteristics":
                    ex.require(r == {"value": b""}, "coap-pipeline: the i-th value is reported for the i-th characteristic")
                else:
                    ex.require(r is None, "coap-pipeline: an accepted item is not reported as failed")
            else:
                ex.tag("item-error")
                ex.require(r is not None and r.get("status") not in (0, None), "coap-pipeline: the i-th failure is reported for the i-th characteristic with a non-zero status")
                if outs[i].startswith("status-") and r is not None:
                    ex.require(r.get("status") == -int(outs[i][-1]), "coap-pipeline: the accessory's status is reported")
        return ex.observe(outs)
    return h


# ------------------------------------------------------------------ build
def build(tier, mutate=None):
    C = copies(mutate)
    R = reals()
    units = []

    def add(name, f, *args, **kw):
        units.append(Unit(name, f(C, *args), f(R, *args), **kw))

    if tier == "canary":
        mf, nmax, r, k = 3, 1600, 2, 2
    elif tier == "quick":
        mf, nmax, r, k = 4, 2100, 3, 3
    else:
        mf, nmax, r, k = 6, 5000, 4, 5
    add("ble-out/encode_pdu/frags<=%d" % mf, ble_encode, mf, nmax, split=True,
        bounds={"fragment_size": "8..512 (symbolic)", "body_len": "0..%d, <=%d fragments" % (nmax, mf), "tid/iid/opcode": "symbolic"},
        regions=["empty-body", "three-fragments"])
    for enc in (False, True):
        add("ble-out/_write_pdu/%s/frags<=%d" % ("encrypted" if enc else "plain", mf), ble_write, mf, nmax, enc, split=True,
            bounds={"link_payload": "24(+16)..512 (symbolic)", "body_len": "0..%d, <=%d fragments" % (nmax, mf)},
            regions=["empty-body", "three-fragments"])
        add("ble-in/_read_pdu/%s/pieces<=%d" % ("encrypted" if enc else "plain", r), ble_read, r, 600, enc, split=True,
            bounds={"pieces": r, "body_len": "0..600 (symbolic)", "control/tid per piece": "0..255 (symbolic)", "status": "0..6"},
            regions=["rejected", "multi-piece"])
    add("ble-in/_read_pdu/plain/60-one-byte-fragments", ble_read_many, 60, bounds={"fragments": 60, "tid": "0..255", "status": "0..6 (symbolic)"})
    add("ble/fragment-size", fragment_size, bounds={"mtu": "23..517", "max_write_without_response": "0..512", "overhead": "0|16"})
    full_k = 2 if tier != "thorough" else 3
    for kk in range(1, k + 1):
        dom = None if kk <= full_k else [0, 4]
        add("coap/decode_all_pdus/k=%d%s" % (kk, "" if dom is None else "/status in {0,4}"), coap_decode, kk, 300, dom, split=(kk >= 3),
            bounds={"items": kk, "control/tid": "0..255", "status": "0..6" if dom is None else "{0,4}", "body_len": "0..300"},
            regions=["item-ok", "item-error"])
    add("coap/encode_all_pdus/k=%d" % k, coap_encode, k, 300, bounds={"items": k, "iid": "0..65535", "body_len": "0..300"})
    for op in PIPE_OPS:
        kk = 2 if tier == "canary" else 3 if tier == "quick" else 4
        add("coap/pipeline/%s/k=%d" % (op, kk), coap_pipeline, op, kk, bounds={"items": kk, "per-item outcome": ITEM_OUTCOMES},
            regions=["item-ok", "item-error"])
    if tier != "canary":
        # which value lands on which characteristic of a CoAP batch read, end to end (unit of C13)
        from . import c13
        cw, rw = c13.coap_units(c13.copies(mutate))[2], c13.coap_units(c13.reals())[2]
        units.append(Unit("coap/read_characteristics end to end (unit of C13)", cw, rw, bounds={"items": 3, "readable": "every subset", "empty value": "every subset"},
                          regions=["coap-read-value", "coap-read-refused"]))
    return units


CANARIES = [
    ("first fragment overhead 7 -> 6", {PDU: lambda s: s.replace("next_size = fragment_size - 7", "next_size = fragment_size - 6")}, lambda n: n.startswith("ble-out/encode")),
    ("continuation overhead 2 -> 1", {PDU: lambda s: s.replace("next_size = fragment_size - 2", "next_size = fragment_size - 1")}, lambda n: n.startswith("ble-out/encode")),
    ("continuation tid check dropped", {PDU: lambda s: s.replace('    if tid != expected_tid:\n        raise ValueError(f"Expected transaction {expected_tid} but got transaction {tid}")\n\n    return data[2:]', "    return data[2:]")}, lambda n: n.startswith("ble-in") and "plain" in n),
    ("coap offset 5 -> 4", {CPDU: lambda s: s.replace("offset += 5 + body_len", "offset += 4 + body_len")}, lambda n: n.startswith("coap/decode")),
    ("coap control mask", {CPDU: lambda s: s.replace("control & 0b0000_1110 != 0b0000_0010", "control & 0b0000_0110 != 0b0000_0010")}, lambda n: n.startswith("coap/decode")),
    ("subscribe failures attributed to the previous item", {CCONN: lambda s: s.replace("    def _subscribe_to_exit(self, ids: list[tuple[int, int]], pdu_results: list[bytes | PDUStatus]) -> dict:\n        results = {}\n        for idx, result in enumerate(pdu_results):\n            aid_iid = ids[idx]", "    def _subscribe_to_exit(self, ids: list[tuple[int, int]], pdu_results: list[bytes | PDUStatus]) -> dict:\n        results = {}\n        for idx, result in enumerate(pdu_results):\n            aid_iid = ids[idx - 1]")}, lambda n: "pipeline/subscribe_to" in n),
    ("encryption overhead ignored", {BLEAK: lambda s: s.replace("        fragment_size -= additional_overhead_size", "        pass")}, lambda n: "fragment-size" in n),
]

ASSUMPTIONS = [
    "bodies are opaque (content-independent); fragment size, body length, tid, iid, control, status, piece sizes are solver variables",
    "ideal AEAD for the encrypted variants (DESIGN.md 4.2); bleak client replaced by a recorder/scripted reader; lru_cache wrapper of _determine_fragment_size bypassed via __wrapped__",
    "the accessory's pieces carry exactly the announced number of body bytes; status bytes > 6 and truncated CoAP replies are outside",
    "the first response fragment's control byte is unconstrained (the property names the continuation flag only)",
]


def main(tier, seed, only=None):
    units = common.filter_units(build(tier), only)
    can = None
    if tier == "thorough" and only is None:
        can = lambda: run_canaries(lambda mut: build("canary", mut), CANARIES, seed)
    return check_property(
        PROP, units, tier, seed,
        explanation="encode_pdu/_write_pdu/_read_pdu/_determine_fragment_size and the CoAP batch codec run symbolically: fragment size, "
                    "body length, ids, per-piece control/tid/status and split points are solver variables; obligations compare with a "
                    "reference accessory (reassembly, index attribution, error precedence).",
        assumptions=ASSUMPTIONS, stubs=["bleak client -> recorder", "ChaCha20Poly1305Encryptor/Decryptor -> ideal AEAD", "logger -> no-op"],
        bounds={"tier": tier}, canaries=can, design_ref="DESIGN.md section 5, C17")


def replay(doc):
    return common.std_replay(PROP, build("thorough"), doc)
