"""C16 - structured TLV8 messages: every TLVStruct subclass (found by reflection) encodes canonically and
round-trips; receive-only structures decode reference-encoded messages to exactly the encoded field values.
Real code: aiohomekit/tlv8.py + ble/structs.py, coap/structs.py, model/characteristics/structs.py, meshcop.py."""
import collections.abc
import dataclasses
import enum
import importlib
import random
import typing

from symx import Unit, as_rope, check_property, decide, int_to_rope, load, rope_eq, run_canaries, slen
from symx.core import SymInt
from symx.loader import TypeShim
from symx.rope import SymBytes, SymStr

from . import common
from .refs import byte, rope, tlv8_encode

PROP = "C16"
TLV8 = "aiohomekit.tlv8"
STRUCT_MODS = ["aiohomekit.controller.ble.structs", "aiohomekit.controller.coap.structs",
               "aiohomekit.model.characteristics.structs", "aiohomekit.meshcop"]


class Mods:
    pass


def copies(mutate=None):
    mutate = mutate or {}
    m = Mods()
    m.tlv8 = load(TLV8, src_transform=mutate.get(TLV8))
    m.mods = {n: load(n, deps={TLV8: m.tlv8}, src_transform=mutate.get(n)) for n in STRUCT_MODS}
    return m


def reals():
    m = Mods()
    m.tlv8 = importlib.import_module(TLV8)
    m.mods = {n: importlib.import_module(n) for n in STRUCT_MODS}
    return m


def struct_classes(M):
    """every TLVStruct subclass defined in the struct modules (reflection)"""
    out = []
    for mn, mod in M.mods.items():
        for k, v in vars(mod).items():
            if isinstance(v, type) and issubclass(v, M.tlv8.TLVStruct) and v is not M.tlv8.TLVStruct and v.__module__ == mn:
                out.append((mn.rsplit(".", 2)[-2] + "." + k if mn.endswith("structs") else "meshcop." + k, v))
    return out


INT_WIDTH = {"u8": 1, "u16": 2, "bu16": 2, "u32": 4, "u64": 8, "u128": 16}


def kind_of(M, t):
    if isinstance(t, TypeShim):
        t = t.real
    if typing.get_origin(t) is collections.abc.Sequence:
        return "seq"
    if t is bytes:
        return "bytes"
    if t is str:
        return "str"
    if t is float:
        return "float"
    if isinstance(t, type):
        if issubclass(t, enum.IntEnum):
            return "enum"
        if issubclass(t, M.tlv8.TLVStruct):
            return "struct"
        if t.__name__ in INT_WIDTH and issubclass(t, int):
            return "int"
    return "?"


def init_fields(cls):
    return [f for f in dataclasses.fields(cls) if f.init]


class Gen:
    """builds an instance of a struct class with symbolic field values; mirrors it as a plain tree"""

    def __init__(self, ex, M, long_path=None, long_size=1, unset_path=None, nseq=2, nids=3, enum_rot=0, empty_elem=None):
        self.ex, self.M = ex, M
        self.sym = not getattr(ex, "concrete", False)
        self.long_path, self.long_size, self.unset_path = long_path, long_size, unset_path
        self.nseq, self.nids, self.enum_rot = nseq, nids, enum_rot
        self.counter = 0
        self.packed_lists = 0
        self.empty_elem = empty_elem  # path of one list element that is built with every field unset

    def name(self, path):
        self.counter += 1
        return "%s#%d" % (path, self.counter)

    def value(self, t, path):
        """-> (value for the library, mirror for the reference encoder / comparison)"""
        ex, M = self.ex, self.M
        k = kind_of(M, t)
        if k == "int":
            w = INT_WIDTH[t.__name__]
            v = ex.fresh_int(self.name(path), 0, 256 ** w - 1)
            return v, ("int", t.__name__, v)
        if k == "enum":
            # enum members are a small finite domain: every member of every enum is taken by one of the
            # rotation variants of the unit (each-choice coverage), instead of forking the product
            members = list(t)
            self.counter += 1
            m = members[(self.enum_rot + self.counter) % len(members)]
            return m, ("int", "u8", int(m))
        if k in ("bytes", "str"):
            n = self.long_size if path == self.long_path else (1 + self.counter % 2)
            b = ex.fresh_bytes(self.name(path), n, opaque=True)
            if k == "bytes":
                return b, ("bytes", b)
            if self.sym:
                # str contents: 7-bit ASCII including NUL and control characters (explicit assumption: UTF-8 coding is the identity there)
                import z3
                seg = b.segs[0]
                for i in range(n):
                    c = z3.Select(seg.arr, i)
                    ex.add(z3.And(c >= 0, c <= 127))
                return SymStr(SymBytes(b.segs)), ("bytes", b)
            s = bytes(b).decode("ascii")
            return s, ("bytes", s.encode())
        if k == "struct":
            return self.struct(t, path)
        if k == "seq":
            inner = t.__args__[0]
            ik = kind_of(M, inner)
            if ik == "int":
                items = [self.value(inner, "%s[%d]" % (path, i)) for i in range(self.nids)]
                return [i[0] for i in items], ("packed", [i[1] for i in items])
            items = [self.value(inner, "%s[%d]" % (path, i)) for i in range(self.nseq)]
            return [i[0] for i in items], ("seq", [i[1] for i in items])
        raise RuntimeError("C16 harness cannot build a value of type %r at %s" % (t, path))

    def struct(self, cls, path):
        kwargs, mirror = {}, []
        if path == self.empty_elem:
            return cls(), ("struct", cls, [])
        for f in init_fields(cls):
            p = "%s.%s" % (path, f.name)
            k = kind_of(self.M, f.type)
            if k == "float" or p == self.unset_path:
                continue  # float has no serializer (stays unset); one designated unset field
            if k == "seq" and kind_of(self.M, f.type.__args__[0]) == "int":
                # packed id list: only the first one in the message tree carries ids (the library's TLV-style
                # mis-parse of packed ids forks on every id byte); an empty list is an unset field
                self.packed_lists += 1
                if self.packed_lists > 1 or self.nids == 0:
                    continue
            v, m = self.value(f.type, p)
            kwargs[f.name] = v
            mirror.append((int(f.metadata["tlv_type"]), f.name, m))
        return cls(**kwargs), ("struct", cls, mirror)


def le(v, n, order="little"):
    return int_to_rope(v, n, order)


def ref_value_bytes(m):
    """reference serialisation of a mirror value (HAP TLV8: little-endian ints, bu16 big-endian, packed ids,
    `00 00` between list items, nested structs as TLV8)"""
    kind = m[0]
    if kind == "int":
        return le(m[2], INT_WIDTH[m[1]], "big" if m[1] == "bu16" else "little")
    if kind == "bytes":
        return as_rope(m[1])
    if kind == "struct":
        return ref_struct_bytes(m)
    if kind == "seq":
        out = rope()
        for i, it in enumerate(m[1]):
            if i:
                out = out + b"\x00\x00"
            out = out + ref_value_bytes(it)
        return out
    if kind == "packed":
        out = rope()
        for it in m[1]:
            out = out + ref_value_bytes(it)
        return out
    raise RuntimeError(kind)


def ref_struct_bytes(m):
    """fields in declaration order, maximal 255-byte fragments"""
    return tlv8_encode([(t, ref_value_bytes(v)) for t, _name, v in m[2]])


def compare(ex, got, m, label, packed=False):
    """field-wise equality of a decoded library value with the mirror"""
    kind = m[0]
    if kind == "int":
        ex.require(got is not None and got == m[2], ("%s: packed id list element equals the encoded id" if packed
                                                     else "%s: integer field equals what was encoded") % label)
    elif kind == "bytes":
        g = got.rope if isinstance(got, SymStr) else (got.encode() if isinstance(got, str) else got)
        ex.require(got is not None and rope_eq(g, m[1]), "%s: bytes/str field equals what was encoded" % label)
    elif kind == "struct":
        ok = got is not None
        ex.require(ok, "%s: nested message present" % label)
        if ok:
            names = {n for _t, n, _v in m[2]}
            for t, n, v in m[2]:
                compare(ex, getattr(got, n), v, "%s field %s.%s" % (label.split(" field ")[0], m[1].__name__, n))
            for f in init_fields(m[1]):
                if f.name not in names:
                    ex.require(getattr(got, f.name) is None, "%s field %s.%s: unset field stays unset" % (label.split(" field ")[0], m[1].__name__, f.name))
    elif kind == "packed":
        want = m[1]
        if not want:
            ex.require(not got, "%s: empty packed id list decodes to no ids" % label)
            return
        ok = got is not None and len(got) == len(want)
        ex.require(ok, "%s: packed id list has the encoded number of ids" % label)
        if ok:
            for g, v in zip(got, want):
                compare(ex, g, v, label, packed=True)
    elif kind == "seq":
        ok = got is not None and len(got) == len(m[1])
        ex.require(ok, "%s: list has the encoded number of elements" % label)
        if ok:
            for g, v in zip(got, m[1]):
                compare(ex, g, v, label)


def has_packed(M, cls, seen=()):
    for f in init_fields(cls):
        k = kind_of(M, f.type)
        if k == "seq":
            inner = f.type.__args__[0]
            if kind_of(M, inner) == "int":
                return True
            if kind_of(M, inner) == "struct" and inner not in seen and has_packed(M, inner, seen + (cls,)):
                return True
        if k == "struct" and f.type not in seen and has_packed(M, f.type, seen + (cls,)):
            return True
    return False


def holds_packed_directly(M, cls):
    return any(kind_of(M, f.type) == "seq" and kind_of(M, f.type.__args__[0]) == "int" for f in init_fields(cls))


def leaf_paths(M, cls, path, nseq, depth=0):
    """paths of bytes/str leaves and of all init fields (for the long-field / unset-field variants)"""
    leaves, fields_ = [], []
    for f in init_fields(cls):
        p = "%s.%s" % (path, f.name)
        k = kind_of(M, f.type)
        if k == "float":
            continue
        if depth == 0:
            fields_.append(p)
        if k in ("bytes", "str"):
            leaves.append(p)
        elif k == "struct":
            leaves += leaf_paths(M, f.type, p, nseq, depth + 1)[0]
        elif k == "seq" and kind_of(M, f.type.__args__[0]) == "struct":
            for i in range(nseq):
                leaves += leaf_paths(M, f.type.__args__[0], "%s[%d]" % (p, i), nseq, depth + 1)[0]
    return leaves, fields_


def max_enum_members(M, cls, seen=()):
    n = 1
    for f in init_fields(cls):
        k = kind_of(M, f.type)
        t = f.type
        if k == "seq":
            t = f.type.__args__[0]
            k = kind_of(M, t)
        if k == "enum":
            n = max(n, len(list(t)))
        elif k == "struct" and t not in seen:
            n = max(n, max_enum_members(M, t, seen + (cls,)))
    return n


def seq_struct_paths(M, cls, path, depth=0):
    """paths of the first element of every list-of-messages field in the message tree"""
    out = []
    for f in init_fields(cls):
        p = "%s.%s" % (path, f.name)
        k = kind_of(M, f.type)
        if k == "struct" and depth < 4:
            out += seq_struct_paths(M, f.type, p, depth + 1)
        elif k == "seq" and kind_of(M, f.type.__args__[0]) == "struct":
            out.append("%s[0]" % p)
            if depth < 4:
                out += seq_struct_paths(M, f.type.__args__[0], "%s[1]" % p, depth + 1)
    return out


def struct_unit(M, clsname, long_path, long_size, unset_path, nseq, nids, enum_rot=0, empty_elem=None):
    cls = dict(struct_classes(M))[clsname]
    packed = has_packed(M, cls)

    def h(ex):
        g = Gen(ex, M, long_path, long_size, unset_path, nseq, nids, enum_rot, empty_elem)
        x, mirror = g.struct(cls, clsname)
        ref = ref_struct_bytes(mirror)
        sym = g.sym
        obs = None
        if not packed:
            # the library can encode this message type: canonical encoding and round trip
            enc = x.encode()
            ex.require(rope_eq(enc, ref), "encode: equals the canonical TLV8 encoding (declaration order, 255-byte fragments, 00 00 between list items)")
            dec = cls.decode(enc)
            compare(ex, dec, mirror, "decode(encode(x))")
            obs = enc
            ex.tag("encodable")
        # what a conformant peer sends decodes to exactly the encoded field values
        dec2 = cls.decode(ref if sym else bytes(ref.concrete()))
        compare(ex, dec2, mirror, "decode(reference-encode(x))")
        if packed:
            ex.tag("packed-ids")
        return ex.observe(obs if obs is not None else slen(ref))
    return h


# ------------------------------------------------------------------ signatures: to_dict() consistency (HAP BLE 7.3.4.x tables)
PERM_BITS = [(0x0010, "pr"), (0x0020, "pw"), (0x0080, "ev"), (0x0004, "aa"), (0x0008, "tw"), (0x0040, "hd")]
FORMATS = {0x01: ("bool", 1), 0x04: ("uint8", 1), 0x06: ("uint16", 2), 0x08: ("uint32", 4), 0x0A: ("uint64", 8), 0x10: ("int", 4),
           0x19: ("string", 0), 0x1B: ("data", 0), 0x00: (None, 0), 0x33: (None, 0)}
UNITS = {0x272F: "celsius", 0x2763: "arcdegrees", 0x27AD: "percentage", 0x2700: None, 0x2731: "lux", 0x2703: "seconds", 0x1234: None}


def signature_unit(M, clsname, part):
    """decode(reference-encode(signature)).to_dict(): instance id, permission bits, format, unit, range and step as encoded.
    part 'permissions': every property-bit vector (format fixed); part 'format': every format x unit x range x step (bits fixed)"""
    cls = dict(struct_classes(M))[clsname]
    tl = {f.name: int(f.metadata["tlv_type"]) for f in init_fields(cls)}
    coap = clsname.startswith("coap.")

    def h(ex):
        sym = not getattr(ex, "concrete", False)
        iid = ex.fresh_int("iid", 0, 65535)
        props = ex.fresh_int("properties", 0, 65535) if part == "permissions" else 0x0033
        typ = ex.fresh_int("type", 0, 2 ** 128 - 1)
        fcode = ex.choice("format", list(FORMATS)) if part == "format" else 0x06
        ucode = ex.choice("unit", list(UNITS)) if part == "format" else 0x272F
        fname, width = FORMATS[fcode]
        have_range = ex.fresh_bool("have_range") and width > 0 and fname != "bool"
        have_step = ex.fresh_bool("have_step") and width > 0 and fname != "bool"
        signed = fname == "int"
        lo, hi = ((-(2 ** 31), 2 ** 31 - 1) if signed else (0, 256 ** width - 1)) if width else (0, 0)
        mn, mx, st = ex.fresh_int("min", lo, hi), ex.fresh_int("max", lo, hi), ex.fresh_int("step", lo, hi)

        def enc(v):
            return int_to_rope(v if not signed else (v + 2 ** 32) % (2 ** 32) if isinstance(v, int) else v, width, "little") if not signed or isinstance(v, int) else int_to_rope(v, width, "little", True)

        items = [(tl["type"], le(typ, 16)), (tl["instance_id"], le(iid, 2)), (tl["properties"], le(props, 2)),
                 (tl["presentation_format"], bytes([fcode, 0]) + ucode.to_bytes(2, "little") + b"\x01\x00\x00")]
        if have_range:
            items.append((tl["valid_range"], rope(enc(mn), enc(mx))))
        if have_step:
            items.append((tl["step_value"], enc(st)))
        blob = tlv8_encode(items)
        d = cls.decode(blob if sym else bytes(blob.concrete())).to_dict()
        ex.require(d.get("iid") == iid, "to_dict: instance id as encoded")
        want_perms = [name for bit, name in PERM_BITS if decide((props // bit) % 2 == 1)]
        ex.require(d.get("perms") == want_perms, "to_dict: permissions are exactly the set property bits (pr, pw, ev, aa, tw, hd)")
        if "broadcast_events" in d or clsname.startswith("ble."):
            ex.require(bool(d.get("broadcast_events")) == decide((props // 0x0200) % 2 == 1), "to_dict: broadcast flag is bit 0x0200")
            ex.require(bool(d.get("disconnected_events")) == decide((props // 0x0100) % 2 == 1), "to_dict: disconnected-events flag is bit 0x0100")
        # the CoAP module's convention is to call every integer presentation format "int"
        want_name = "int" if (coap and fname in ("uint8", "uint16", "uint32", "uint64", "int")) else fname
        ex.require(d.get("format") == want_name, "to_dict: format name of the presentation format code")
        ex.require(d.get("unit") == UNITS[ucode], "to_dict: unit of the presentation format")
        if have_range:
            ex.tag("range")
            ex.require(d.get("minValue") == mn and d.get("maxValue") == mx, "to_dict: minimum and maximum as encoded")
        else:
            ex.require("minValue" not in d and "maxValue" not in d, "to_dict: no range when none was sent")
        if have_step and decide(st != 0):
            ex.tag("step")
            ex.require(d.get("minStep") == st, "to_dict: step as encoded")
        return ex.observe([fname, sorted(d.keys())])
    return h


def build(tier, mutate=None, seed=0):
    C = copies(mutate)
    R = reals()
    units = []
    rng = random.Random(77 + seed)
    names = [n for n, _ in struct_classes(C)]
    assert names == [n for n, _ in struct_classes(R)], "copies and real modules disagree on the struct classes"
    sizes_all = [254, 255, 256, 510, 511]
    for clsname, cls in struct_classes(C):
        nseq = 2  # three list elements per list multiplied the path count beyond any budget (more than 8 CPU-hours); two everywhere
        direct = holds_packed_directly(C, cls)
        dn = 1  # ids per packed list in the non-dedicated variants (the TLV-style mis-parse of ids explodes otherwise)
        variants = [(None, 1, None, nseq, dn, r) for r in range(max_enum_members(C, cls))]
        leaves, fields_ = leaf_paths(C, cls, clsname, nseq)
        if direct:
            variants += [(None, 1, None, nseq, k, 0) for k in (0, 2, 3)]  # more ids make the TLV-style mis-parse of the packed list (known finding) explode
        # top-level fields get every boundary size, fields inside nested messages / list elements the three that matter most
        longs = [(p, s) for p in leaves for s in (sizes_all if p.count(".") <= 2 and "[" not in p else (255, 256, 511))]
        if tier == "canary":
            longs, unsets = longs[:2], fields_[:1]
        else:
            # quick and thorough explore the same sample of (field, boundary size) pairs and unset fields (thorough with twice as
            # many); the full products ran for hours.  The thorough tier adds the canaries.
            rng.shuffle(longs)
            longs = longs[:4 if tier == "quick" else 8]
            unsets = fields_[:]
            rng.shuffle(unsets)
            unsets = unsets[:3 if tier == "quick" else 5]
        nseq_v = 2 if tier == "thorough" else nseq
        variants += [(p, s, None, nseq_v, dn, 1) for p, s in longs]
        variants += [(None, 1, u, nseq_v, dn, 2) for u in unsets]
        variants = [v + (None,) for v in variants]
        variants += [(None, 1, None, nseq, dn, 1, ep) for ep in seq_struct_paths(C, cls, clsname)]
        for lp, ls, up, ns, ni, rot, ep in variants:
            tag = ("long=%s:%d" % (lp.split(".", 2)[-1], ls) if lp else "") + ("unset=%s" % up.rsplit(".", 1)[-1] if up else "") + ("empty-leading-element=%s" % ep.split(".", 2)[-1] if ep else "") or "base"
            nm = "%s/%s/ids=%d" % (clsname, tag, ni) if has_packed(C, cls) else "%s/%s" % (clsname, tag)
            if tag == "base":
                nm += "/enum-rotation=%d" % rot
            args = (clsname, lp, ls, up, ns, ni, rot, ep)
            units.append(Unit(nm, struct_unit(C, *args), struct_unit(R, *args), split=(ni >= 6),
                              bounds={"class": clsname, "list_elements": ns, "packed_ids": ni, "long_field": [lp, ls], "unset": up, "enum_rotation": rot, "all_unset_leading_list_element": ep}))
    if tier != "canary":
        for clsname in ("ble.Characteristic", "coap.Pdu09Characteristic"):
            for part in ("permissions", "format"):
                units.append(Unit("%s/signature-to_dict/%s" % (clsname, part), signature_unit(C, clsname, part), signature_unit(R, clsname, part), split=True,
                                  bounds={"instance id": "0..65535 (symbolic)", "property bits": "0..65535 (symbolic)" if part == "permissions" else "fixed",
                                          "format x unit": "%d x %d" % (len(FORMATS), len(UNITS)) if part == "format" else "fixed",
                                          "range / step": "present or absent, every value of the format"},
                                  regions=["range", "step"] if part == "format" else []))
    return units


CANARIES = [
    ("struct fragment size 255 -> 256", {TLV8: lambda s: s.replace("for offset in range(0, len(encoded), 255):\n                chunk = encoded[offset : offset + 255]", "for offset in range(0, len(encoded), 256):\n                chunk = encoded[offset : offset + 256]")}, lambda n: "long=" in n),
    ("list separator dropped", {TLV8: lambda s: s.replace('        result.extend(b"\\x00\\x00")\n', "")}, lambda n: "VideoConfig" in n),
    ("bu16 serialised little-endian", {TLV8: lambda s: s.replace('return struct.pack(">H", value)', 'return struct.pack("<H", value)')}, lambda n: "meshcop" in n),
    ("look-ahead does not re-join fragments", {TLV8: lambda s: s.replace("        while length == 255:", "        while False:")}, lambda n: "long=" in n),
]

ASSUMPTIONS = [
    "every integer field symbolic over its full width, enum fields by selector over all members, bytes/str contents opaque (str: 7-bit ASCII incl. NUL and control characters), lengths concrete from the boundary set for one distinguished field at a time (1..2 otherwise)",
    "float fields have no serializer in the library and stay unset; zero-length bytes/str/sequence values are outside (the property's size list starts at 1)",
    "struct.pack native 'H'/'I'/'Q' modelled as this platform's little-endian fixed sizes",
    "equality is field-wise on init fields; message types that contain a packed id list cannot be encoded by the library and are checked on the receive side only",
]


def main(tier, seed, only=None):
    units = common.filter_units(build(tier, seed=seed), only)
    can = None
    if tier == "thorough" and only is None:
        can = lambda: run_canaries(lambda mut: build("canary", mut), CANARIES, seed)
    return check_property(
        PROP, units, tier, seed,
        explanation="For every TLVStruct subclass found by reflection a symbolic instance is built (full-width ints, all enum members, "
                    "opaque bytes at boundary sizes, nested messages, lists, packed id lists); the real encode()/decode() run "
                    "symbolically and z3 discharges encode == reference canonical encoding, decode(encode(x)) == x and "
                    "decode(ref_encode(x)) == x field by field.",
        assumptions=ASSUMPTIONS, stubs=["logger -> no-op"],
        bounds={"tier": tier, "classes": len(struct_classes(copies()))}, canaries=can, design_ref="DESIGN.md section 5, C16")


def replay(doc):
    return common.std_replay(PROP, build("thorough"), doc)
