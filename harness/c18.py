"""C18 - BLE broadcast notifications are accepted only if authentic and fresh.
One step of BlePairing._async_notification from an ARBITRARY last-accepted state number; induction over the history.
Real code: ble/pairing.py _async_notification, ble/key.py BroadcastDecryptionKey, ble/values.py from_bytes,
ble/manufacturer_data.py HomeKitEncryptedNotification, ble/controller.py routing."""
from symx import Unit, as_rope, check_property, decide, int_to_rope, rope_eq, run_canaries, slen
from symx.ideal import World

from . import ble_adv as BA
from . import common
from .refs import rope

PROP = "C18"
KINDS = ["genuine", "other-key", "other-advertising-id", "arbitrary", "truncated-genuine", "tagless-modified-genuine"]
FORMATS = {"uint8": 1, "uint16": 2, "uint32": 4, "uint64": 8, "int": 4}


def le(v, n):
    return int_to_rope(v, n, "little")


def notification_unit(M, fmt, iid=BA.KNOWN_IID):
    width = FORMATS[fmt]

    def h(ex):
        sym = M.sym
        s = ex.fresh_int("last_state", 0, 65535)
        c = ex.fresh_int("nonce_counter", 0, 70000)
        g = ex.fresh_int("inner_gsn", 0, 65535)
        kind = ex.choice("kind", KINDS)
        have_key, have_desc = ex.fresh_bool("have_key"), ex.fresh_bool("have_description")
        value = ex.fresh_int("value", 0, 256 ** width - 1)
        pt = rope(le(g, 2), le(iid, 2), le(value, width), bytes(8 - width))
        cut = ex.fresh_int("cut", 0, 15)
        key_name = "bk" if kind != "other-key" else "other"
        adv = BA.ADV_ID if kind != "other-advertising-id" else BA.OTHER_ADV_ID
        if sym:
            W = World.get()
            kb, kb_used = W.term(("key", "bk"), 32), W.term(("key", key_name), 32)
            payload = BA.IdealPartialTag(kb_used).seal(BA.nonce(c), pt, adv) if kind != "arbitrary" else ex.fresh_bytes("adv_payload", 16)
            if kind == "truncated-genuine":
                payload = as_rope(payload).slice(0, cut)  # a strict prefix of the genuine bytes
            elif kind == "tagless-modified-genuine":
                payload = W.term(("forged", 0), 12)  # the genuine ciphertext without its tag and with value bits flipped: other bytes
        else:
            kb, kb_used = (b"bk" * 32)[:32], (key_name.encode() * 32)[:32]
            payload = BA.seal_real(kb_used, c, pt.concrete(), adv) if kind != "arbitrary" else ex.fresh_bytes("adv_payload", 16)
            if kind == "truncated-genuine":
                payload = payload[:cut]
            elif kind == "tagless-modified-genuine":
                payload = bytes(payload[:4]) + bytes([payload[4] ^ 0x5A]) + bytes(payload[5:12])
        desc = M.mfr.HomeKitAdvertisement.from_cache("aa:bb", BA.ADV_ID_STR, 1, 0) if have_desc else None
        if desc is not None:
            desc.state_num = s
        p = BA.new_pairing(M, fmt, True, desc)
        p._accessories_state.accessories.acc.characteristics.known = iid
        if have_key:
            p._broadcast_decryption_key = M.key.BroadcastDecryptionKey(kb)
        note = M.mfr.HomeKitEncryptedNotification(name="n", address="aa:bb", id=BA.ADV_ID_STR, advertising_identifier=BA.ADV_ID,
                                                  encrypted_payload=payload)
        with BA.patched_tasks(M):
            p._async_notification(note)
        # decided for every payload kind, so that each kind is also replayed on the real library with fresh counters
        fresh = decide(g == c) and decide(s < c) and decide(c < s + 100)
        should = have_key and have_desc and kind == "genuine" and fresh
        new_s = p.description.state_num if p.description is not None else None
        if should:
            ex.tag("accepted")
            ex.require(len(p.calls) == 1, "an authentic, fresh notification reaches listeners exactly once")
            if len(p.calls) == 1:
                ev = p.calls[0]
                ok = list(ev.keys()) == [(1, iid)] and "value" in ev[(1, iid)]
                ex.require(ok, "delivered under the right characteristic id")
                if ok:
                    ex.require(ev[(1, iid)]["value"] == (value if fmt != "int" else (value if decide(value < 2 ** 31) else value - 2 ** 32)),
                               "delivered value is the decoded value the accessory sent")
            ex.require(new_s == c, "the last accepted state number advances to the notification's")
        else:
            ex.tag("ignored")
            ex.require(len(p.calls) == 0, "a replayed, stale, forged, foreign or inconsistent notification never reaches listeners")
            if have_desc:
                ex.require(new_s == s, "an ignored notification does not change the last accepted state number")
        return ex.observe([bool(should), len(p.calls)])  # whether the fall-back poll is scheduled is allowed either way
    return h


def routing_unit(M):
    """BleController._device_detected hands a type-0x11 advertisement only to the pairing whose id is the advertising id"""
    def h(ex):
        adv = ex.choice("advertising_id", [BA.ADV_ID, BA.OTHER_ADV_ID])
        payload = ex.fresh_bytes("adv_payload", 12)
        data = rope(b"\x11\x00", adv, payload)
        ctl = object.__new__(M.ctl.BleController)
        got = []

        class P:
            def _async_notification(self, d):
                got.append(d)

        ctl.pairings = {BA.ADV_ID_STR: P()}
        ctl.discoveries = {}
        ctl._ble_futures = {}

        class Dev:
            name, address = "n", "aa:bb"

        class Adv:
            manufacturer_data = {76: data if M.sym else bytes(data.concrete())}

        ctl._device_detected(Dev(), Adv())
        if adv == BA.ADV_ID:
            ex.tag("routed")
            ok = len(got) == 1
            ex.require(ok, "a notification for this accessory's advertising identifier is handed to its pairing")
            if ok:
                ex.require(rope_eq(got[0].encrypted_payload, payload) and rope_eq(got[0].advertising_identifier, BA.ADV_ID) and got[0].id == BA.ADV_ID_STR,
                           "advertising identifier and payload are passed on unchanged")
        else:
            ex.require(len(got) == 0, "a notification for another advertising identifier is not handed to this pairing")
        return ex.observe(len(got))
    return h


def restart_unit(M):
    """after a restart the pairing is rebuilt from the characteristic cache (the real BlePairing.__init__): the freshness baseline of
    encrypted broadcasts is the cached state number, not any other cached number"""
    def h(ex):
        state_num = ex.fresh_int("cached_state_num", 1, 65535)
        config_num = ex.fresh_int("cached_config_num", 1, 255)

        class Cache:
            def get_map(self, hkid):
                return {"config_num": config_num, "state_num": state_num, "broadcast_key": None, "accessories": []}

        class Ctl:
            _char_cache = Cache()

        pd = {"AccessoryPairingID": BA.ADV_ID_STR, "AccessoryAddress": "aa:bb", "iOSPairingId": "me", "Connection": "BLE"}
        p = M.blep.BlePairing(Ctl(), pd)
        d = p.description
        ex.require(d is not None, "a pairing restored from the cache has a description")
        if d is not None:
            ex.require(d.state_num == state_num, "the restored last accepted state number is the cached state number")
            ex.require(d.config_num == config_num, "the restored configuration number is the cached one")
            ex.require(d.id == BA.ADV_ID_STR and d.address == "aa:bb", "the restored description names this accessory")
        return ex.observe("ok")
    return h


def two_keys_unit(M):
    """two broadcast keys in one process (a second pairing, or the same one after its key was regenerated): what was sealed under one
    key never opens under the other, whatever either has been used for before"""
    def h(ex):
        sym = M.sym
        n = ex.fresh_int("nonce_counter", 1, 65535)
        pt = rope(int_to_rope(n, 2, "little"), int_to_rope(BA.KNOWN_IID, 2, "little"), b"\x01" + bytes(7))
        if sym:
            W = World.get()
            ka, kb = W.term(("key", "A"), 32), W.term(("key", "B"), 32)
            sealed_a = BA.IdealPartialTag(ka).seal(BA.nonce(n), pt, BA.ADV_ID)
            sealed_for_b_with_a = BA.IdealPartialTag(ka).seal(BA.nonce(n), pt, BA.OTHER_ADV_ID)
        else:
            ka, kb = (b"A" * 32), (b"B" * 32)
            sealed_a = BA.seal_real(ka, n, pt.concrete(), BA.ADV_ID)
            sealed_for_b_with_a = BA.seal_real(ka, n, pt.concrete(), BA.OTHER_ADV_ID)
        key_a, key_b = M.key.BroadcastDecryptionKey(ka), M.key.BroadcastDecryptionKey(kb)
        first = key_a.decrypt(sealed_a if sym else bytes(sealed_a), n, BA.ADV_ID)
        ex.require(first not in (None, False), "the key that sealed a notification opens it")
        second = key_b.decrypt(sealed_for_b_with_a if sym else bytes(sealed_for_b_with_a), n, BA.OTHER_ADV_ID)
        ex.require(second in (None, False), "a notification sealed under another pairing's key does not open, also for a nonce that key has already been tried with")
        return ex.observe("ok")
    return h


def build(tier, mutate=None):
    C = BA.copies(mutate)
    R = BA.reals()
    units = []
    fmts = ["uint8", "uint16", "int"] if tier != "thorough" else list(FORMATS)
    if tier == "canary":
        fmts = ["uint8"]
    for fmt in fmts:
        units.append(Unit("notification-step/%s" % fmt, notification_unit(C, fmt), notification_unit(R, fmt), split=True,
                          bounds={"last_state": "0..65535", "nonce_counter": "0..70000", "inner_gsn": "0..65535", "payload": KINDS,
                                  "value": "every value of the format", "candidate loop": "fully unrolled (100)"},
                          regions=["accepted", "ignored"], diff_sample=100000))
    units.append(Unit("notification-step/uint8/iid=0x0123", notification_unit(C, "uint8", 0x0123), notification_unit(R, "uint8", 0x0123), split=True,
                      bounds={"characteristic id": "0x0123 (two significant bytes)", "otherwise": "as notification-step/uint8"},
                      regions=["accepted", "ignored"], diff_sample=120))
    units.append(Unit("routing", routing_unit(C), routing_unit(R), bounds={"advertising id": "own / other", "payload": "12 arbitrary bytes"}, regions=["routed"]))
    if tier != "canary":
        units.append(Unit("restart/description-from-cache", restart_unit(C), restart_unit(R), bounds={"cached state number": "1..65535", "cached configuration number": "1..255"}))
        units.append(Unit("two-keys/same-nonce", two_keys_unit(C), two_keys_unit(R), bounds={"nonce counter": "1..65535 (symbolic)"}))
    return units


CANARIES = [
    ("inner GSN not compared", {BA.BLEP: lambda s: s.replace("            if gsn != state_num:", "            if False:")}, lambda n: n.startswith("notification")),
    ("stale state number accepted", {BA.BLEP: lambda s: s.replace("            if state_num == start_state_num:", "            if False:")}, lambda n: n.startswith("notification")),
    ("window extended backwards", {BA.BLEP: lambda s: s.replace("                start_state_num + 2, start_state_num + 100", "                start_state_num - 5, start_state_num + 100")}, lambda n: n.startswith("notification")),
    ("state number not advanced", {BA.BLEP: lambda s: s.replace("            self.description.state_num = gsn\n", "            pass\n")}, lambda n: n.startswith("notification")),
    ("advertising id not authenticated", {BA.KEY: lambda s: s.replace("return self.key.open(PACK_NONCE(gsn), data, advertising_identifier)", 'return self.key.open(PACK_NONCE(gsn), data, b"")')}, lambda n: n.startswith("notification")),
]

ASSUMPTIONS = [
    "ideal 4-byte-tag AEAD (DESIGN.md 4.2): open() returns the plaintext only for exactly the sealed (key, nonce, aad, bytes); the 2^-32 forgery chance of the truncated tag is outside",
    "one step from an arbitrary last-accepted state number; acceptance implies c > s and sets s := c, so induction over the advertisement history gives freshness for sequences of any length",
    "the characteristic id of the genuine notification is in the cached database (an authentic notification for an unknown id is C19's 'callback never raises'); integer formats symbolic, others concrete",
    "scheduling the fall-back poll is allowed behaviour, not a state change; GSN wrap-around at 65535 is outside",
]


def main(tier, seed, only=None):
    units = common.filter_units(build(tier), only)
    can = None
    if tier == "thorough" and only is None:
        can = lambda: run_canaries(lambda mut: build("canary", mut), CANARIES, seed)
    return check_property(
        PROP, units, tier, seed,
        explanation="BlePairing._async_notification runs once from an arbitrary symbolic last-accepted state number with a payload that is "
                    "genuine (nonce counter, inner GSN and value symbolic), sealed under another key / for another advertising id, or "
                    "arbitrary bytes; the 100-candidate loop is fully unrolled; z3 discharges 'listeners called and state advanced iff "
                    "authentic, inner GSN == nonce and s < c < s+100'. Routing by advertising id through BleController._device_detected.",
        assumptions=ASSUMPTIONS, stubs=["ChaCha20Poly1305PartialTag -> ideal partial-tag AEAD", "accessories -> stub with one known iid", "async_create_task -> recorder"],
        bounds={"tier": tier}, canaries=can, design_ref="DESIGN.md section 5, C18")


def replay(doc):
    return common.std_replay(PROP, build("thorough"), doc)
