"""C10 (partly) - reconnection keeps trying with bounded back-off and a single connector.
(a) back-off recurrence lifted from the AST of HomeKitConnection._reconnect into z3 reals (one-step inductive lemma);
(b) the real _reconnect coroutine hand-driven for K attempts whose outcomes, host exclusions, wake-ups and close requests
    are symbolic selectors;  (c) the connector guards from an arbitrary flag state;  (d) _get_connect_hosts.
(e) the waiting caller (IpPairing._ensure_connected / ensure_connection) hand-driven: shield, 10 s wait, error translation.
Not decided: truly concurrent triggers, the happy-eyeballs inner loop, wall-clock behaviour (need a running loop)."""
import ast
import asyncio

import aiohomekit.controller.ip.connection as real_ipc
import aiohomekit.controller.ip.pairing as real_ipp
import aiohomekit.exceptions as X
import z3

from symx import Unit, check_property, load, run_canaries
from symx.loader import source_path

from . import common

PROP = "C10"
IPC = "aiohomekit.controller.ip.connection"
IPP = "aiohomekit.controller.ip.pairing"


def copies(mutate=None):
    mutate = mutate or {}
    return load(IPC, src_transform=mutate.get(IPC))


# ------------------------------------------------------------------ (a) the recurrence, from the source
def lift(expr, var):
    if isinstance(expr, ast.Constant) and isinstance(expr.value, (int, float)):
        return z3.RealVal(repr(expr.value))
    if isinstance(expr, ast.Name) and expr.id == "interval":
        return var
    if isinstance(expr, ast.BinOp) and isinstance(expr.op, (ast.Mult, ast.Add, ast.Sub, ast.Div)):
        a, b = lift(expr.left, var), lift(expr.right, var)
        return {ast.Mult: a * b, ast.Add: a + b, ast.Sub: a - b, ast.Div: a / b}[type(expr.op)]
    if isinstance(expr, ast.Call) and isinstance(expr.func, ast.Name) and expr.func.id in ("min", "max") and len(expr.args) == 2:
        a, b = lift(expr.args[0], var), lift(expr.args[1], var)
        return z3.If(a <= b, a, b) if expr.func.id == "min" else z3.If(a >= b, a, b)
    raise ValueError("back-off expression outside the liftable fragment: %s" % ast.dump(expr))


def recurrence_lemma(src_transform=None):
    """for all 0.5 <= interval <= 60: next <= 60, next >= 0.75, next > interval or next == 60; cap reached within 12 steps"""
    src = open(source_path(IPC)).read()
    if src_transform:
        src = src_transform(src)
    fn = next(n for n in ast.walk(ast.parse(src)) if isinstance(n, ast.AsyncFunctionDef) and n.name == "_reconnect")
    init_nodes = [n for n in ast.walk(fn) if isinstance(n, ast.Assign) and len(n.targets) == 1 and isinstance(n.targets[0], ast.Name)
                  and n.targets[0].id == "interval" and isinstance(n.value, ast.Constant)]
    errors, violations = [], []
    if len(init_nodes) != 1:
        return {"obligations": 0, "errors": ["expected exactly one `interval = <literal>` in _reconnect, found %d" % len(init_nodes)]}
    init = float(init_nodes[0].value.value)
    i = z3.Real("interval")

    def lift_cond(c):
        if isinstance(c, ast.Compare) and len(c.ops) == 1:
            a, b = lift(c.left, i), lift(c.comparators[0], i)
            return {ast.Lt: a < b, ast.LtE: a <= b, ast.Gt: a > b, ast.GtE: a >= b, ast.Eq: a == b, ast.NotEq: a != b}[type(c.ops[0])]
        raise ValueError("condition outside the liftable fragment: %s" % ast.dump(c))

    def update_of(stmt, cur):
        """value of `interval` after stmt, given its value before (z3 term); None if stmt does not touch it"""
        if isinstance(stmt, ast.Assign) and len(stmt.targets) == 1 and isinstance(stmt.targets[0], ast.Name) and stmt.targets[0].id == "interval":
            return z3.substitute(lift(stmt.value, i), (i, cur))
        if isinstance(stmt, ast.AugAssign) and isinstance(stmt.target, ast.Name) and stmt.target.id == "interval":
            v = lift(stmt.value, i)
            v = z3.substitute(v, (i, cur))
            return {ast.Mult: cur * v, ast.Add: cur + v, ast.Sub: cur - v, ast.Div: cur / v}[type(stmt.op)]
        if isinstance(stmt, ast.If):
            touched = [x for x in ast.walk(stmt) if (isinstance(x, ast.Assign) and any(isinstance(t, ast.Name) and t.id == "interval" for t in x.targets))
                       or (isinstance(x, ast.AugAssign) and isinstance(x.target, ast.Name) and x.target.id == "interval")]
            if not touched:
                return None
            cond = z3.substitute(lift_cond(stmt.test), (i, cur))
            a = b = cur
            for st_ in stmt.body:
                u = update_of(st_, a)
                a = a if u is None else u
            for st_ in stmt.orelse:
                u = update_of(st_, b)
                b = b if u is None else u
            return z3.If(cond, a, b)
        return None

    # the statements of the retry loop body that update `interval`, in source order (the initial literal excluded)
    loop = next((n for n in ast.walk(fn) if isinstance(n, ast.While)), None)
    if loop is None:
        return {"obligations": 0, "errors": ["no retry loop found in _reconnect"]}
    nxt, n_updates = i, 0
    try:
        for stmt in loop.body:
            u = update_of(stmt, nxt)
            if u is not None:
                nxt, n_updates = u, n_updates + 1
    except (ValueError, KeyError) as e:
        return {"obligations": 0, "errors": [str(e)]}
    if n_updates == 0:
        return {"obligations": 0, "errors": ["the retry loop does not update `interval` at its top level"]}
    update_src = "; ".join(ast.unparse(st_) for st_ in loop.body if update_of(st_, i) is not None)
    obligations = {
        "back-off: the next delay never exceeds 60 s": nxt <= 60,
        "back-off: the delay never degenerates (next >= 0.75 s)": nxt >= z3.RealVal("0.75"),
        "back-off: the delay grows until it reaches the cap": z3.Or(nxt > i, nxt == 60),
    }
    n = 0
    for label, ob in obligations.items():
        s = z3.Solver()
        s.set("timeout", 20000)
        s.add(i >= z3.RealVal(repr(init)), i <= 60, z3.Not(ob))
        r = s.check()
        n += 1
        if r == z3.sat:
            v = s.model().eval(i, model_completion=True)
            violations.append({"label": label, "inputs": {"interval": str(v)}, "what": "%s fails for interval = %s (next = %s)" % (label, v, s.model().eval(nxt, model_completion=True))})
        elif r != z3.unsat:
            errors.append("solver unknown on %r" % label)
    # cap reached within 12 steps from the literal initial value (concrete iteration of the lifted expression)
    cur, steps = z3.RealVal(repr(init)), 0
    while steps < 40:
        cur = z3.simplify(z3.substitute(nxt, (i, cur)))
        steps += 1
        if z3.is_true(z3.simplify(cur == 60)):
            break
    n += 1
    if steps > 12:
        violations.append({"label": "back-off: the 60 s cap is reached within 12 failures", "inputs": {"steps": steps}, "what": "cap not reached after %d steps" % steps})
    # a lemma violation must also show on the real coroutine before it is reported
    if violations:
        sleeps = drive_failures(real_ipc, 16)
        law_ok = all(0.7 <= s <= 60 for s in sleeps) and all(b > a or b == 60 for a, b in zip(sleeps, sleeps[1:])) and sleeps[-1] == 60
        if law_ok:
            errors.append("lemma violated on the lifted expression but the real coroutine sleeps %r" % (sleeps[:6],))
            violations = []
    return {"obligations": n, "initial_interval": init, "update": update_src, "errors": errors, "violations": violations}


# ------------------------------------------------------------------ hand-driving the real coroutine
class FakeFuture:
    def __init__(self):
        self._done = False

    def done(self):
        return self._done

    def set_result(self, v):
        self._done = True


class FakeLoop:
    def create_future(self):
        return FakeFuture()


class Patched:
    """asyncio.sleep / interrupt / async_create_task of the module under test replaced by recorders (restored afterwards)"""

    def __init__(self, M, on_sleep):
        self.M, self.on_sleep = M, on_sleep
        self.tasks = []

    def __enter__(self):
        M = self.M
        self.saved = (M.asyncio, M.interrupt, M.async_create_task)
        outer = self

        class AsyncioFacade:
            def __getattr__(self, k):
                return getattr(asyncio, k)

            async def sleep(self, t):
                outer.on_sleep(t)

        class Interrupt:
            def __init__(self, fut, exc, msg):
                pass

            async def __aenter__(self):
                return self

            async def __aexit__(self, *a):
                return None

        M.asyncio = AsyncioFacade()
        M.interrupt = Interrupt
        M.async_create_task = lambda coro: (coro.close(), outer.tasks.append("connector"), FakeTask("running"))[2]
        return self

    def __exit__(self, *a):
        self.M.asyncio, self.M.interrupt, self.M.async_create_task = self.saved
        return False


class FakeTask:
    def __init__(self, state):
        self.state = state

    def done(self):
        return self.state != "running"

    def cancel(self, msg=None):
        pass


def new_conn(M, hosts):
    c = object.__new__(M.HomeKitConnection)
    c.owner, c.hosts, c.port = None, list(hosts), 80
    c.closing = c.closed = False
    c.transport = c.protocol = c._connector = None
    c.is_secure = False
    c._connect_lock = asyncio.Lock()
    c._loop = FakeLoop()
    c._reconnect_future = None
    c._last_connector_error = None
    c._pair_verify_failed_hosts = set()
    c.connected_host = None
    return c


def drive_failures(M, k):
    sleeps = []
    c = new_conn(M, ["10.0.0.1"])
    n = {"i": 0}

    async def once():
        n["i"] += 1
        if n["i"] > k:
            return None
        raise X.ConnectionError("refused")

    c._connect_once = once
    with Patched(M, sleeps.append):
        coro = c._reconnect()
        try:
            coro.send(None)
        except StopIteration:
            pass
    return sleeps


OUTCOMES = ["refused", "timeout", "peer-closed", "http-4xx", "wrong-id-marks-address", "wrong-id-marks-nothing", "bad-signature",
            "authentication-error", "unexpected", "success"]
HOSTSETS = [["10.0.0.1"], ["10.0.0.1", "10.0.0.2"], ["10.0.0.1", "10.0.0.2", "fe80::1%eth0"]]


def law(n_failures):
    v, out = 0.5, []
    for _ in range(n_failures):
        v = min(60, 1.5 * v)
        out.append(v)
    return out


def reconnect_unit(M, K, nhosts):
    hosts = HOSTSETS[nhosts - 1]

    def h(ex):
        outs = [ex.choice("outcome%d" % i, OUTCOMES) for i in range(K)]
        pre_excluded = ex.choice("pre_excluded", [0, 1]) if nhosts > 1 else 0
        wake = [ex.fresh_bool("wake%d" % i) for i in range(K)]
        close_at = ex.choice("close_during_sleep", ["never"] + list(range(K)))
        c = new_conn(M, hosts)
        if pre_excluded:
            c._pair_verify_failed_hosts.add(M._normalize_host(hosts[-1]))
        log = []  # ("attempt", host tried) | ("sleep", seconds)
        st = {"i": 0}

        async def once():
            i = st["i"]
            st["i"] += 1
            tried = c._get_connect_hosts()
            log.append(("attempt", tried[0], c.closing))
            o = outs[i] if i < K else "success"
            if o == "success":
                return None
            if o == "refused":
                raise X.ConnectionError("refused")
            if o == "timeout":
                raise X.TimeoutError("Timeout")
            if o == "peer-closed":
                raise X.AccessoryDisconnectedError("Connection closed")
            if o == "http-4xx":
                raise X.HttpErrorResponse("470")
            if o == "wrong-id-marks-address":
                c._pair_verify_failed_hosts.add(M._normalize_host(tried[0]))
                raise X.IncorrectPairingIdError("step 3")
            if o == "wrong-id-marks-nothing":
                raise X.IncorrectPairingIdError("step 3")
            if o == "bad-signature":
                raise X.InvalidSignatureError("step 3")
            if o == "authentication-error":
                raise X.AuthenticationError("step 4")
            raise ValueError("unexpected")

        c._connect_once = once
        nsleeps = {"n": 0}

        def on_sleep(t):
            log.append(("sleep", t))
            if close_at != "never" and nsleeps["n"] == close_at:
                c.closing = True
            nsleeps["n"] += 1

        with Patched(M, on_sleep):
            coro = c._reconnect()
            try:
                coro.send(None)
                end = "suspended"
            except StopIteration:
                end = "returned"
            except X.AuthenticationError:
                end = "authentication"
            except Exception as e:
                end = "raised:" + type(e).__name__
        attempts = [e for e in log if e[0] == "attempt"]
        sleeps = [e[1] for e in log if e[0] == "sleep"]
        ex.require(end in ("returned", "authentication"), "reconnect: the loop ends only by success, an authentication failure or close")
        # walk the log against the specification
        expected = law(len(sleeps))
        ex.require(sleeps == expected, "reconnect: the k-th back-off sleep is min(60, 0.5 * 1.5^k)")
        immediate, prev_fail, idx, ok_order = 0, None, 0, True
        n_att = 0
        for e in log:
            if e[0] == "attempt":
                ex.require(not e[2], "reconnect: no attempt is made after close was requested")
                if prev_fail is not None and n_att > 0 and not prev_fail["slept"]:
                    # an attempt right after a failure without a sleep in between
                    ex.tag("immediate-retry")
                    ex.require(prev_fail["newly_marked"] and prev_fail["others_left"], "reconnect: an immediate retry only moves on to another advertised address")
                    ex.require(e[1] != prev_fail["host"], "reconnect: an immediate retry goes to a different address")
                    immediate += 1
                    ex.require(immediate <= max(len(hosts) - 1, 0), "reconnect: at most one immediate retry per remaining address")
                else:
                    immediate = 0 if prev_fail is None or prev_fail["slept"] else immediate
                o = outs[n_att] if n_att < K else "success"
                excluded_before = {M._normalize_host(x) for x in hosts if M._normalize_host(x) in c._pair_verify_failed_hosts}
                prev_fail = None if o == "success" else {"slept": False, "host": e[1], "kind": o,
                                                         "newly_marked": o == "wrong-id-marks-address", "others_left": None}
                n_att += 1
            else:
                if prev_fail is not None:
                    prev_fail["slept"] = True
                    immediate = 0
            if prev_fail is not None and prev_fail["others_left"] is None:
                prev_fail["others_left"] = len(hosts) > 1
        last = outs[len(attempts) - 1] if 0 < len(attempts) <= K else "success"
        if end == "authentication":
            ex.tag("authentication-ends")
            ex.require(last == "authentication-error" and isinstance(c._last_connector_error, X.AuthenticationError),
                       "reconnect: only an authentication failure is re-raised, and it is kept as last_connector_error")
        else:
            ex.require(last == "success" or c.closing, "reconnect: a failed attempt is always followed by another one unless close was requested")
            if last == "success":
                ex.tag("success-ends")
        if len(sleeps) >= 2:
            ex.tag("two-sleeps")
        return ex.observe([end, len(attempts), [round(s, 4) for s in sleeps]])
    return h


def long_outage_unit(M, K):
    """K consecutive failures of one kind: the complete trajectory of the back-off from its literal start to beyond the cap"""
    kinds = [o for o in OUTCOMES if o not in ("success", "authentication-error", "wrong-id-marks-address")]

    def h(ex):
        kind = ex.choice("failure", kinds)
        c = new_conn(M, ["10.0.0.1"])
        sleeps, st = [], {"i": 0}

        async def once():
            st["i"] += 1
            if st["i"] > K:
                return None
            exc = {"refused": X.ConnectionError, "timeout": X.TimeoutError, "peer-closed": X.AccessoryDisconnectedError, "http-4xx": X.HttpErrorResponse,
                   "wrong-id-marks-nothing": X.IncorrectPairingIdError, "bad-signature": X.InvalidSignatureError, "unexpected": ValueError}[kind]
            raise exc("x")

        c._connect_once = once
        with Patched(M, sleeps.append):
            coro = c._reconnect()
            try:
                coro.send(None)
                end = "suspended"
            except StopIteration:
                end = "returned"
            except Exception as e:
                end = "raised:" + type(e).__name__
        ex.require(end == "returned" and st["i"] == K + 1, "long outage: every failure is followed by another attempt until one succeeds")
        ex.require(sleeps == law(K), "long outage: the k-th back-off sleep is min(60, 0.5 * 1.5^k)")
        ex.require(all(0 < s_ <= 60 for s_ in sleeps) and all(b >= a for a, b in zip(sleeps, sleeps[1:])), "long outage: delays grow and never exceed 60 s")
        if sleeps and sleeps[-1] == 60:
            ex.tag("cap-reached")
        return ex.observe([end, [round(s_, 4) for s_ in sleeps]])
    return h


# ------------------------------------------------------------------ (c) guards
CALLS = ["_start_connector", "reconnect_soon", "_start_reconnecting", "_connection_lost"]


def guard_unit(M):
    def h(ex):
        call = ex.choice("call", CALLS)
        closing, closed = ex.fresh_bool("closing"), ex.fresh_bool("closed")
        has_t, has_p = ex.fresh_bool("transport"), ex.fresh_bool("protocol")
        conn_state = ex.choice("connector", ["none", "running", "finished"])
        fut_state = ex.choice("reconnect_future", ["none", "pending", "done"])
        c = new_conn(M, ["10.0.0.1"])
        c.closing, c.closed = closing, closed

        class T:
            def __init__(self):
                self.closed = False

            def close(self):
                self.closed = True

        t = T()
        c.transport = t if has_t else None
        c.protocol = object() if has_p else None
        c._connector = None if conn_state == "none" else FakeTask(conn_state)
        fut = None if fut_state == "none" else FakeFuture()
        if fut_state == "done":
            fut._done = True
        c._reconnect_future = fut
        with Patched(M, lambda t_: None) as p:
            if call == "_connection_lost":
                c._connection_lost(None)
                connected_before = False  # the connection is gone by definition
            else:
                connected_before = bool(has_t and has_p and not closed)
                getattr(c, call)()
        ex.require(len(p.tasks) <= 1, "guards: at most one connector task is created by one trigger")
        if conn_state == "running":
            ex.require(len(p.tasks) == 0, "guards: no second connector while one is running")
        if connected_before:
            ex.require(len(p.tasks) == 0, "guards: no connector while connected")
        if call == "reconnect_soon" and fut_state == "pending":
            ex.tag("woken")
            ex.require(fut.done() and len(p.tasks) == 0, "guards: a waiting back-off sleep is woken instead of starting another connector")
        if call == "_connection_lost":
            ex.require(c.transport is None and c.protocol is None, "guards: a lost connection is forgotten")
            if closing:
                ex.require(len(p.tasks) == 0 and c.closed, "guards: after close no further attempt is started")
            elif conn_state != "running":
                ex.tag("restarted")
                ex.require(len(p.tasks) == 1, "guards: losing the connection starts the connector")
        if call in ("_start_connector", "_start_reconnecting") and conn_state != "running" and not connected_before:
            ex.require(len(p.tasks) == 1, "guards: a trigger while disconnected starts the connector")
        return ex.observe([call, len(p.tasks)])
    return h


# ------------------------------------------------------------------ (e) the waiting caller
class WFut:
    """asyncio.Future's state machine without a loop (also stands for the connector task)"""

    def __init__(self, name):
        self.name, self.state, self._r, self._e, self.cancel_calls = name, "PENDING", None, None, 0

    def done(self):
        return self.state != "PENDING"

    def cancelled(self):
        return self.state == "CANCELLED"

    def set_result(self, r):
        self.state, self._r = "FINISHED", r

    def set_exception(self, e):
        self.state, self._e = "FINISHED", e

    def cancel(self, msg=None):
        self.cancel_calls += 1
        if self.state != "PENDING":
            return False
        self.state = "CANCELLED"
        return True

    def result(self):
        if self._e is not None:
            raise self._e
        return self._r

    def exception(self):
        return self._e

    def __await__(self):
        if self.state == "PENDING":
            yield self
        if self.state == "CANCELLED":
            raise asyncio.CancelledError()
        if self._e is not None:
            raise self._e
        return self._r

    __iter__ = __await__


class WaitEnv:
    """asyncio.shield / asyncio.timeout / task creation of the modules under test replaced by loop-free stand-ins:
    shield(inner) returns a separate outer future (cancelling the outer one leaves the inner one alone - asyncio's contract);
    asyncio_timeout turns the Task.cancel() of its expiry into TimeoutError on exit"""

    def __init__(self, M, P):
        self.M, self.P = M, P
        self.shields, self.created, self.timeouts = [], [], []

    def __enter__(self):
        M, P, env = self.M, self.P, self
        self.saved = (M.asyncio, M.async_create_task, P.asyncio_timeout)

        class AsyncioFacade:
            def __getattr__(self, k):
                return getattr(asyncio, k)

            def shield(self, inner):
                outer = WFut("shield")
                env.shields.append((inner, outer))
                return outer

        class Timeout:
            def __init__(self, delay):
                self.delay, self.fired = delay, False
                env.timeouts.append(self)

            async def __aenter__(self):
                return self

            async def __aexit__(self, et, ev, tb):
                if self.fired and et is not None and issubclass(et, asyncio.CancelledError):
                    raise asyncio.TimeoutError() from ev
                return False

        def create(coro):
            coro.close()
            t = WFut("connector")
            env.created.append(t)
            return t

        M.asyncio, M.async_create_task, P.asyncio_timeout = AsyncioFacade(), create, Timeout
        return self

    def __exit__(self, *a):
        self.M.asyncio, self.M.async_create_task, self.P.asyncio_timeout = self.saved
        return False

    def settle(self):
        """what the loop does for a shield: the outer future follows the inner one"""
        for inner, outer in self.shields:
            if inner.done() and not outer.done():
                if inner.cancelled():
                    outer.cancel()
                elif inner._e is not None:
                    outer.set_exception(inner._e)
                else:
                    outer.set_result(inner._r)


WAIT_EVENTS = ["caller-cancelled", "caller-timeout", "connector-connects", "connector-returns-unconnected", "connector-authentication-error"]


def waiting_caller_unit(M, P):
    """IpPairing._ensure_connected -> HomeKitConnection.ensure_connection: the caller gets its answer, the connector survives"""
    def h(ex):
        level = ex.choice("entry", ["pairing._ensure_connected", "connection.ensure_connection"])
        conn_state = ex.choice("connector", ["none", "running", "finished"])
        connected = ex.fresh_bool("connected")
        last_error = ex.choice("last_connector_error", ["none", "timeout", "connection-refused"])
        event = ex.choice("event", WAIT_EVENTS)
        c = new_conn(M, ["10.0.0.1"])
        c._last_connector_error = {"none": None, "timeout": asyncio.TimeoutError(), "connection-refused": ConnectionRefusedError("refused")}[last_error]
        if connected:
            c.transport, c.protocol = object(), object()
        existing = None
        if conn_state != "none":
            existing = c._connector = WFut("connector")
            if conn_state == "finished":
                existing.set_result(None)
        p = object.__new__(P.IpPairing)
        p._shutdown, p.connection = False, c
        avail = []
        p._callback_availability_changed = avail.append
        with WaitEnv(M, P) as env:
            coro = p._ensure_connected() if level.startswith("pairing") else c.ensure_connection()
            try:
                awaited = coro.send(None)
            except StopIteration:
                ex.tag("no-wait")
                ex.require(connected, "the caller returns at once only when the connection is up")
                ex.require(not env.created, "no connector is started while connected")
                return ex.observe("returned-at-once")
            except Exception as e:  # noqa
                ex.require(False, "waiting for the connection does not fail before anything happened (%s)" % type(e).__name__)
                return ex.observe("raised-at-once")
            ex.require(not connected, "a connected caller does not wait")
            connector = c._connector
            ex.require(connector is not None and len(env.created) <= 1, "exactly one connector serves the waiting caller")
            if conn_state == "running":
                ex.require(connector is existing and not env.created, "a running connector is reused, not duplicated")
            ex.require(awaited is not connector, "the caller does not wait on the connector task itself (a caller that gives up would cancel it)")
            # ---- what happens next
            outcome = None
            try:
                if event in ("caller-cancelled", "caller-timeout"):
                    if event == "caller-timeout":
                        ex.assume(level.startswith("pairing") and env.timeouts)
                        env.timeouts[-1].fired = True
                    awaited.cancel()  # Task.cancel(): the future the task waits on is cancelled ...
                    env.settle()
                    coro.send(None)  # ... and the task is resumed
                    outcome = ("still-waiting", None)
                else:
                    if event == "connector-connects":
                        c.transport, c.protocol = object(), object()
                        connector.set_result(None)
                    elif event == "connector-returns-unconnected":
                        connector.set_result(None)
                    else:
                        connector.set_exception(X.AuthenticationError("step 3"))
                    env.settle()
                    coro.send(None)
                    outcome = ("still-waiting", None)
            except StopIteration:
                outcome = ("returned", None)
            except asyncio.CancelledError:
                outcome = ("cancelled", None)
            except Exception as e:  # noqa
                outcome = ("raised", e)
            ex.tag(event)
            ex.require(connector.cancel_calls == 0 and not connector.cancelled(), "a caller that stops waiting does not abort the background attempt")
            kind, exc = outcome
            if event == "caller-cancelled":
                ex.require(kind == "cancelled", "a cancelled caller ends with CancelledError")
            elif event == "caller-timeout":
                ex.require(kind == "raised" and isinstance(exc, X.AccessoryDisconnectedError), "after the bounded wait the caller gets a disconnection error")
                if kind == "raised" and last_error == "connection-refused":
                    ex.require("refused" in str(exc) and "ConnectionRefusedError" in str(exc), "the disconnection error names the connector's last error")
            elif event == "connector-connects":
                ex.require(kind == "returned", "the caller returns once the connector has connected")
                if level.startswith("pairing"):
                    ex.require(avail == [True], "availability listeners are told the connection is back")
            elif event == "connector-returns-unconnected":
                if level.startswith("pairing"):
                    ex.require(kind == "raised" and isinstance(exc, X.AccessoryDisconnectedError), "returning without a connection is reported as a disconnection error")
                else:
                    ex.require(kind == "returned", "ensure_connection returns when the connector has finished")
            else:
                ex.require(kind == "raised" and isinstance(exc, X.AuthenticationError), "the connector's authentication error reaches the waiting caller")
            return ex.observe([kind, type(exc).__name__ if exc is not None else None])
    return h


# ------------------------------------------------------------------ (f) a failed set-up, then the loop reports the loss of its socket
def late_loss_unit(M):
    """the real SecureHomeKitConnection._connect_once fails (network model of harness/c11.py); afterwards the event loop
    delivers connection_lost for the socket the controller closed.  An authentication failure has ended the connector by
    then: nothing may start another one (that would retry without any back-off, for ever)"""
    from . import c11

    def h(ex):
        out = ex.choice("outcome", [o for o in c11.OUTCOMES if o != "ok"])
        net = c11.Net()
        with c11.Env(M, net) as env:
            conn = c11.new_conn(M, env)
            conn._connector = c11.FakeTask("running")
            r = c11.attempt(M, env, conn, out)
            if r[0] != "raised":  # http-400-at-M3: post_tlv closes the socket and still decodes the reply (see harness/c11.py)
                return ex.observe("set-up did not fail")
            cls = getattr(X, out, None)
            ends = isinstance(cls, type) and issubclass(cls, X.AuthenticationError)
            if ends:
                ex.require(r[1] == out, "an authentication failure ends the connector with that error")
            elif out == "CancelledError":
                ex.require(r[1] == "CancelledError", "a cancellation ends the connector")
            else:
                ex.require(r[1] == "failed attempt, connector sleeps", "every other failed attempt is followed by the back-off sleep, the connector does not end (%s)" % out)
            # _reconnect re-raises AuthenticationError (the connector task is finished), everything else is retried by it
            conn._connector = c11.FakeTask("finished-auth-error" if ends else "running")
            before = len(env.tasks)
            for t in list(net.all):
                t.deliver_lost()
            ex.tag("auth-failure" if ends else "retried-failure")
            ex.require(len(env.tasks) == before, "the loss of a socket that a failed set-up closed does not start another connector (%s)"
                       % ("authentication failure ended the retries" if ends else "the running connector retries with back-off"))
        return ex.observe([out, len(env.tasks)])
    return h


# ------------------------------------------------------------------ (g) which addresses an attempt tries
ADDRS3 = ["10.0.0.1", "10.0.0.2", "10.0.0.3"]
SUBSETS = [[0], [1], [0, 1], [1, 0], [0, 2], [0, 1, 2], [2, 1, 0]]


def host_refresh_unit(M):
    """real SecureHomeKitConnection._connect_once: the advertised address list replaces the stored one whenever it differs (and
    then clears the exclusions); every address that is advertised and not currently excluded is handed to the connection attempt"""
    from . import c11

    def h(ex):
        stored = [ADDRS3[i] for i in ex.choice("stored_hosts", SUBSETS)]
        adv = ex.choice("advertised", ["no-description"] + SUBSETS)
        excluded = [a for i, a in enumerate(ADDRS3) if ex.fresh_bool("excluded%d" % i)]
        net = c11.Net()
        with c11.Env(M, net) as env:
            conn = c11.new_conn(M, env)
            conn.hosts = list(stored)
            conn._pair_verify_failed_hosts = {M._normalize_host(a) for a in excluded if a in stored}
            if adv != "no-description":
                advertised = [ADDRS3[i] for i in adv]

                class Desc:
                    addresses, address, port = list(advertised), advertised[0], 80

                class Owner:
                    name, description = "owner", Desc()

                    async def connection_made(self, secure):
                        return None

                conn.owner = Owner()
            else:
                advertised = None
            env.tried = None
            r = c11.attempt(M, env, conn, "ok")
            ex.require(r[0] == "ok" and env.tried is not None, "(harness) the attempt runs")
            changed = advertised is not None and set(advertised) != set(stored)
            current = advertised if changed else stored
            marked = set() if changed else {a for a in excluded if a in stored}
            want = [a for a in current if a not in marked] or list(current)
            if changed:
                ex.tag("list-changed")
                ex.require(list(conn.hosts) == advertised, "a changed advertised address list replaces the stored one")
            ex.require(env.tried == want, "the attempt tries every current address that is not excluded (all of them when all are excluded or the list changed)")
            ex.require(all(a in env.tried for a in current if a not in marked), "no advertised address is left out of the attempt")
        return ex.observe(env.tried)
    return h


# ------------------------------------------------------------------ (h) a zeroconf update for the pairing
def description_update_unit(M, P):
    """IpPairing._async_description_update hastens a reconnect - but never after shutdown"""
    def h(ex):
        shutdown = ex.fresh_bool("shutdown")
        closed, closing = ex.fresh_bool("connection.closed"), ex.fresh_bool("connection.closing")
        connected = ex.fresh_bool("connected")
        conn_state = ex.choice("connector", ["none", "running", "finished"])
        fut_state = ex.choice("reconnect_future", ["none", "pending"])
        c = new_conn(M, ["10.0.0.1"])
        c.closed, c.closing = closed, closing
        if connected:
            c.transport, c.protocol = object(), object()
        c._connector = None if conn_state == "none" else FakeTask(conn_state)
        fut = c._reconnect_future = None if fut_state == "none" else FakeFuture()
        p = object.__new__(P.IpPairing)
        p._shutdown, p.connection, p.description, p._accessories_state = shutdown, c, None, None
        p.id = "aa:bb"
        with Patched(M, lambda t_: None) as patched:
            p._async_description_update(None)
        woken = fut is not None and fut.done()
        if shutdown:
            ex.tag("after-shutdown")
            ex.require(not patched.tasks and not woken, "after shutdown a zeroconf update starts no connector and wakes no back-off sleep")
        else:
            ex.tag("open")
            if fut_state == "pending":
                ex.require(woken and not patched.tasks, "an update wakes a waiting back-off sleep")
            elif conn_state != "running" and not (connected and not closed):
                ex.require(len(patched.tasks) == 1, "an update while disconnected starts the connector")
        return ex.observe([len(patched.tasks), woken])
    return h


# ------------------------------------------------------------------ (k) a session the controller itself closes after an HTTP error
def http_error_unit(M8):
    """post_tlv closes the socket of an established session when the accessory answers a TLV request with HTTP 4xx; when the loop
    then reports the loss of that socket the connector must be started (otherwise the pairing stays disconnected for good)"""
    from . import c08
    from .c19w import Waiter

    def h(ex):
        status = ex.choice("http_status", [470, 400, 429])
        W = c08.World(M8, 1)
        w = Waiter(W.conn.post_tlv("/pairings", [(6, b"\x01")]))
        w.step()
        ex.require(w.state == "suspended" and len(W.tr.written) == 1, "(harness) the request is in flight")
        body = b"\x06\x01\x02\x07\x01\x02"
        W.append("response", 0, b"HTTP/1.1 %d Error\r\nContent-Type: application/pairing+tlv8\r\nContent-Length: %d\r\n\r\n%s" % (status, len(body), body))
        W.read(len(W.wire))
        w.step()
        ex.require(w.state == "returned" and dict(w.value).get(7) == b"\x02", "post_tlv hands the TLV body of an HTTP error reply to its caller")
        ex.require(W.tr.closed, "the session is closed after an HTTP error reply")
        before = len(W.connectors)
        W.proto.connection_lost(None)  # the loop reports the loss of the socket the controller closed
        ex.require(len(W.connectors) == before + 1, "the loss of a session closed after an HTTP error starts the connector")
        return ex.observe([status, len(W.connectors)])
    return h


# ------------------------------------------------------------------ (j) zeroconf records reach the pairing
def browser_unit(M):
    """a record for the pairing's id reaches the pairing (which then hastens the reconnect) however it arrives: directly, through
    the browser callback and its 0.5 s resolve timer, or after a goodbye that fell into the resolve delay"""
    from . import c19w

    def h(ex):
        W = c19w.MdnsWorld(M, True)
        try:
            W.route = ex.choice("record_arrives_via", ["direct", "browser", "browser-after-goodbye"])
            first = ex.choice("before", ["nothing", "a-malformed-record", "an-earlier-record"])
            if first == "a-malformed-record":
                W.advertise(c19w.ID_A, malformed=True)
            elif first == "an-earlier-record":
                W.advertise(c19w.ID_A)
            pairing = W.ctl.pairings[c19w.ID_A]
            before = len(pairing.updates)
            W.advertise(c19w.ID_A)
            ex.require(len(pairing.updates) == before + 1, "a valid record for the pairing's id is handed to the pairing (route: %s, before: %s)" % (W.route, first))
            ex.require(not W.ctl._resolve_later, "no service name is left in the resolve table once its record has been processed")
        finally:
            W.close()
        return ex.observe("ok")
    return h


# ------------------------------------------------------------------ (i) shutdown
def shutdown_unit(M, P):
    """AbstractPairing.shutdown marks the pairing as shut down before it awaits close(): whatever is delivered while close() is
    suspended (a zeroconf update, a caller's request) must already be refused - afterwards no connector is started"""
    def h(ex):
        conn_state = ex.choice("connector", ["none", "running", "finished"])
        fut_state = ex.choice("reconnect_future", ["none", "pending"])
        c = new_conn(M, ["10.0.0.1"])
        c._connector = None if conn_state == "none" else FakeTask(conn_state)
        c._reconnect_future = None if fut_state == "none" else FakeFuture()
        p = object.__new__(P.IpPairing)
        p._shutdown, p.connection, p.description, p._accessories_state, p.id = False, c, None, None, "aa:bb"
        seen = {}

        class Suspend:
            def __await__(self):
                yield self

        async def close():
            seen["flag_when_close_is_awaited"] = p._shutdown
            await Suspend()  # close() takes several loop iterations (stopping the connector, asyncio.sleep(0))
            c.closing = True

        p.close = close
        with Patched(M, lambda t_: None) as patched:
            coro = p.shutdown()
            coro.send(None)  # suspended inside close()
            p._async_description_update(None)  # the zeroconf update that lands in between
            woken = c._reconnect_future is not None and c._reconnect_future.done()
            try:
                coro.send(None)
            except StopIteration:
                pass
        ex.require(seen.get("flag_when_close_is_awaited") is True, "shutdown is marked before close() is awaited")
        ex.require(not patched.tasks and not woken, "a zeroconf update that arrives while shutdown() is closing starts no connector and wakes no back-off sleep")
        ex.require(p._shutdown is True, "after shutdown() the pairing is shut down")
        return ex.observe([len(patched.tasks), woken])
    return h


# ------------------------------------------------------------------ (d) hosts
def hosts_unit(M):
    def h(ex):
        hosts = HOSTSETS[2]
        excl = [ex.fresh_bool("excluded%d" % i) for i in range(3)]
        c = new_conn(M, hosts)
        for hst, e in zip(hosts, excl):
            if e:
                c._pair_verify_failed_hosts.add(M._normalize_host(hst))
        got = c._get_connect_hosts()
        want = [hst for hst, e in zip(hosts, excl) if not e]
        ex.require(len(got) > 0, "hosts: the list of addresses to try is never empty")
        if want:
            ex.require(got == want, "hosts: exactly the addresses that are not excluded, in advertised order")
        else:
            ex.tag("all-excluded")
            ex.require(got == hosts and not c._pair_verify_failed_hosts, "hosts: when every address is excluded the exclusions are dropped (no address is excluded forever)")
        return ex.observe(got)
    return h


def build(tier, mutate=None):
    C = copies(mutate)
    CP = load(IPP, deps={IPC: C}, src_transform=(mutate or {}).get(IPP), symbolic=False)
    R = real_ipc
    units = []
    plan = [(3, 1), (3, 2)] if tier == "quick" else [(2, 2)] if tier == "canary" else [(3, 1), (4, 2), (3, 3)]
    for K, nh in plan:
        units.append(Unit("reconnect-loop/K=%d,hosts=%d" % (K, nh), reconnect_unit(C, K, nh), reconnect_unit(R, K, nh), split=True,
                          bounds={"attempts": K, "hosts": nh, "outcomes": OUTCOMES, "wake-up / close during sleep": "symbolic per iteration"},
                          regions=["two-sleeps", "authentication-ends", "success-ends"] + (["immediate-retry"] if nh > 1 else [])))
    units.append(Unit("reconnect-loop/long-outage/K=16,hosts=1", long_outage_unit(C, 16), long_outage_unit(R, 16),
                      bounds={"attempts": 16, "failure kind": "one selector for all attempts", "purpose": "the whole back-off trajectory up to and beyond the 60 s cap"},
                      regions=["cap-reached"]))
    units.append(Unit("guards/one-call-from-arbitrary-state", guard_unit(C), guard_unit(R), split=True,
                      bounds={"call": CALLS, "flags": "closing, closed, transport, protocol, connector state, reconnect future state"},
                      regions=["woken", "restarted"]))
    units.append(Unit("waiting-caller/ensure_connection", waiting_caller_unit(C, CP), waiting_caller_unit(R, real_ipp), split=True,
                      bounds={"entry": "pairing._ensure_connected / connection.ensure_connection", "connector": "none / running / finished", "event": WAIT_EVENTS,
                              "last connector error": "none / timeout / connection refused"},
                      regions=["no-wait"] + WAIT_EVENTS))
    units.append(Unit("failed-setup/late-connection-lost", late_loss_unit(C), late_loss_unit(R),
                      bounds={"set-up outcome": "every failing outcome of harness/c11.py", "then": "connection_lost of every socket the controller closed"},
                      regions=["auth-failure", "retried-failure"]))
    units.append(Unit("hosts/refresh-from-advertisement", host_refresh_unit(C), host_refresh_unit(R), split=True,
                      bounds={"stored hosts": "7 lists over 3 addresses", "advertised": "none or 7 lists", "exclusions": "every subset"}, regions=["list-changed"]))
    units.append(Unit("zeroconf-update/_async_description_update", description_update_unit(C, CP), description_update_unit(R, real_ipp), split=True,
                      bounds={"flags": "shutdown, connection.closed, closing, connected", "connector": "none / running / finished", "back-off sleep": "none / pending"},
                      regions=["after-shutdown", "open"]))
    from . import ble_adv, c19w
    ZC, ZR = c19w.copies_zc(ble_adv.copies(mutate), mutate), c19w.reals_zc(ble_adv.reals())
    units.append(Unit("zeroconf-update/record-reaches-the-pairing", browser_unit(ZC), browser_unit(ZR),
                      bounds={"route": "direct / browser / browser after a goodbye within the resolve delay", "before": "nothing / a malformed record / an earlier record"}))
    from . import c08
    units.append(Unit("established-session/http-error-then-loss", http_error_unit(c08.copies(mutate)), http_error_unit(real_ipc),
                      bounds={"HTTP status": [470, 400, 429]}))
    units.append(Unit("shutdown/update-while-closing", shutdown_unit(C, CP), shutdown_unit(R, real_ipp),
                      bounds={"connector": "none / running / finished", "back-off sleep": "none / pending", "interleaved": "one zeroconf update while close() is suspended"}))
    units.append(Unit("hosts/_get_connect_hosts", hosts_unit(C), hosts_unit(R), bounds={"hosts": 3, "exclusions": "every subset"}, regions=["all-excluded"]))
    return units


CANARIES = [
    ("shield dropped", {IPC: lambda s: s.replace("            await asyncio.shield(self._connector)", "            await self._connector")}, lambda n: n.startswith("waiting-caller")),
    ("timeout reported as plain TimeoutError", {IPP: lambda s: s.replace("        except asyncio.TimeoutError:\n            last_connector_error = connection.last_connector_error", "        except ZeroDivisionError:\n            last_connector_error = connection.last_connector_error")}, lambda n: n.startswith("waiting-caller")),
    ("backoff skipped after any wrong pairing id", {IPC: lambda s: s.replace("                    if len(self._pair_verify_failed_hosts) > failed_host_count and any(\n                        _normalize_host(host) not in self._pair_verify_failed_hosts for host in self.hosts\n                    ):", "                    if True:")}, lambda n: n.startswith("reconnect")),
    ("unexpected exception ends the loop", {IPC: lambda s: s.replace('                except Exception as ex:\n                    self._last_connector_error = ex\n                    logger.exception(', '                except KeyError as ex:\n                    self._last_connector_error = ex\n                    logger.exception(')}, lambda n: n.startswith("reconnect")),
    ("second connector allowed", {IPC: lambda s: s.replace("        if (self._connector and not self._connector.done()) or self.is_connected:\n            return", "        if self.is_connected:\n            return")}, lambda n: n.startswith("guards")),
    ("exclusions never cleared", {IPC: lambda s: s.replace("            self._pair_verify_failed_hosts.clear()\n            return list(self.hosts)", "            return list(self.hosts)")}, lambda n: n.startswith("hosts")),
]

ASSUMPTIONS = [
    "PARTIAL: (a) recurrence lemma over the reals for the back-off expression lifted from the source, (b) the real _reconnect coroutine hand-driven (nothing it awaits ever suspends: _connect_once, asyncio.sleep, interrupt, create_future are stubs; time is the sum of requested sleeps), (c) one guard call from an arbitrary flag state, (d) _get_connect_hosts",
    "in (b)-(d) every symbolic variable is a discrete selector: the solver contributes feasibility pruning and the exhaustiveness account over the bounded history space; the guarantee equals bounded exhaustive exploration of fault histories of the real coroutine",
    "waiting caller (hand-driven): asyncio.shield / asyncio.timeout / task creation are loop-free stand-ins with asyncio's documented contract (cancelling the future returned by shield leaves the inner task alone; asyncio.timeout turns the Task.cancel() of its expiry into TimeoutError on exit; Task.cancel() cancels the awaited future and resumes the task); one event after the caller starts waiting",
    "NOT decided: 'at most one attempt in progress' under truly concurrent triggers, the happy-eyeballs inner loop, wall-clock behaviour (they need a running loop)",
]


def main(tier, seed, only=None):
    units = common.filter_units(build(tier), only)
    can = None
    if tier == "thorough" and only is None:
        def can():
            out = run_canaries(lambda mut: build("canary", mut), CANARIES, seed)
            r = recurrence_lemma(lambda s: s.replace("interval = min(60, 1.5 * interval)", "interval = min(60, 0.9 * interval)"))
            out.append({"name": "back-off shrinks (lemma)", "detected": bool(r.get("violations")) or bool(r.get("errors")), "wall_s": 0, "errors": r.get("errors", [])[:1]})
            return out
    return check_property(
        PROP, units, tier, seed,
        explanation="(a) the back-off update expression is lifted from _reconnect's AST and z3 proves the one-step law over the reals; "
                    "(b) the real _reconnect coroutine is hand-driven for K attempts over every outcome / exclusion / wake-up / close "
                    "selector combination and checked against the back-off law, the immediate-retry rule and the termination rule; "
                    "(c) connector guards from an arbitrary flag state; (d) _get_connect_hosts over every exclusion subset.",
        assumptions=ASSUMPTIONS, stubs=["_connect_once -> scripted outcomes", "asyncio.sleep / interrupt / create_future / async_create_task -> recorders"],
        bounds={"tier": tier}, canaries=can, extra_checks=[] if only else [("back-off recurrence lemma (z3 reals, lifted from the AST)", recurrence_lemma)],
        design_ref="DESIGN.md section 5, C10")


def replay(doc):
    if doc["unit"].startswith("back-off"):
        r = recurrence_lemma()
        for v in r.get("violations", []):
            print(v["what"])
        if r.get("violations"):
            print("VIOLATION property=%s replay=(replayed)" % PROP)
            return 1
        return 0
    return common.std_replay(PROP, build("thorough"), doc)
