"""Shared set-up for C18 (encrypted broadcast notifications) and C19 (advertisement parsing / routing):
module copies of ble/manufacturer_data.py, ble/key.py, ble/values.py, controller/abstract.py, ble/pairing.py,
ble/controller.py with an ideal 4-byte-tag AEAD, plus the real-crypto counterpart for replay."""
import asyncio
import time

import aiohomekit.controller.abstract as real_abstract
import aiohomekit.controller.ble.controller as real_ctl
import aiohomekit.controller.ble.key as real_key
import aiohomekit.controller.ble.manufacturer_data as real_mfr
import aiohomekit.controller.ble.pairing as real_blep
import aiohomekit.controller.ble.values as real_values

from symx import as_rope, decide, int_to_rope, load, rope_eq, slen
from symx.ideal import World
from symx.rope import SymBytes

from .refs import rope

MFR, KEY, VALUES, ABSTRACT, BLEP, CTL = ("aiohomekit.controller.ble.manufacturer_data", "aiohomekit.controller.ble.key",
                                         "aiohomekit.controller.ble.values", "aiohomekit.controller.abstract",
                                         "aiohomekit.controller.ble.pairing", "aiohomekit.controller.ble.controller")
ADV_ID = bytes.fromhex("AABBCCDDEEFF")
ADV_ID_STR = "aa:bb:cc:dd:ee:ff"
OTHER_ADV_ID = bytes.fromhex("112233445566")
KNOWN_IID = 7


class Mods:
    pass


class IdFlag:
    """IntFlag/IntEnum constructors accept every non-negative int; a symbolic value is kept as it is"""

    def __init__(self, name):
        self.name = name

    def __call__(self, v):
        return v


class IdealPartialTag:
    """ideal stand-in for ChaCha20Poly1305PartialTag: open(nonce, combined, aad) -> plaintext or None"""

    def __init__(self, key):
        self.W = World.get()
        self.key = self.W.ident(key)

    def seal(self, nonce, pt, aad):
        W = self.W
        pt = as_rope(pt)
        k = len(W.records)
        ct = W.term(("bcast", k), pt.length() + 4)
        W.records.append({"key": self.key, "nonce": as_rope(nonce), "aad": as_rope(aad), "pt": pt, "ct": ct, "index": k})
        return SymBytes(ct.segs)

    def open(self, nonce, combined, aad):
        if decide(slen(nonce) != 12):
            raise ValueError("Nonce must be 96 bit long")
        for rec in self.W.records:
            if rec["key"] == self.key and decide(as_rope(combined) == rec["ct"]) and decide(as_rope(nonce) == rec["nonce"]) \
                    and decide(as_rope(aad) == rec["aad"]):
                return SymBytes(rec["pt"].segs)
        return None


def copies(mutate=None):
    mutate = mutate or {}
    m = Mods()
    m.mfr = load(MFR, src_transform=mutate.get(MFR))
    m.mfr.Categories, m.mfr.StatusFlags = IdFlag("Categories"), IdFlag("StatusFlags")
    m.key = load(KEY, src_transform=mutate.get(KEY))
    m.key.ChaCha20Poly1305PartialTag = IdealPartialTag
    m.values = load(VALUES, src_transform=mutate.get(VALUES))
    m.abstract = load(ABSTRACT, src_transform=mutate.get(ABSTRACT))
    m.blep = load(BLEP, deps={MFR: m.mfr, KEY: m.key, VALUES: m.values, ABSTRACT: m.abstract}, src_transform=mutate.get(BLEP))
    m.ctl = load(CTL, deps={MFR: m.mfr, ABSTRACT: m.abstract, BLEP: m.blep}, src_transform=mutate.get(CTL))
    m.tasks = []
    for mod in (m.abstract, m.blep):
        mod.async_create_task = lambda coro, m=m: (coro.close(), m.tasks.append("task"))[1]
    m.sym = True
    return m


def reals():
    m = Mods()
    m.mfr, m.key, m.values, m.abstract, m.blep, m.ctl = real_mfr, real_key, real_values, real_abstract, real_blep, real_ctl
    m.tasks = []
    m.sym = False
    return m


class patched_tasks:
    """on the real library async_create_task would need a running loop: record instead"""

    def __init__(self, M):
        self.M = M

    def __enter__(self):
        if not self.M.sym:
            self.saved = (self.M.abstract.async_create_task, self.M.blep.async_create_task)
            rec = lambda coro: (coro.close(), self.M.tasks.append("task"))[1]
            self.M.abstract.async_create_task = self.M.blep.async_create_task = rec
        del self.M.tasks[:]

    def __exit__(self, *a):
        if not self.M.sym:
            self.M.abstract.async_create_task, self.M.blep.async_create_task = self.saved
        return False


def nonce(c):
    return rope(b"\x00\x00\x00\x00", int_to_rope(c, 8, "little"))


def seal_real(key, counter, pt, adv_id):
    """HAP BLE broadcast encryption: ChaCha20-Poly1305 with the 16-byte tag truncated to 4 bytes"""
    from chacha20poly1305 import ChaCha20Poly1305
    full = ChaCha20Poly1305(key).seal(bytes(nonce(counter).concrete()), bytes(pt), bytes(adv_id))
    return bytes(full[:-16] + full[-16:-12])


class Char:
    def __init__(self, iid, fmt):
        self.iid, self.format = iid, fmt


class Chars:
    def __init__(self, fmt):
        self.fmt = fmt
        self.known = KNOWN_IID

    def iid(self, i):
        return Char(self.known, self.fmt) if decide(i == self.known) else None


class Acc:
    def __init__(self, fmt):
        self.characteristics = Chars(fmt)
        self.needs_polling = False


class Accs:
    def __init__(self, fmt):
        self.acc = Acc(fmt)

    def aid(self, a):
        return self.acc

    def __iter__(self):
        return iter([self.acc])

    def __bool__(self):
        return True


class State:
    def __init__(self, fmt, state_num=1, config_num=1):
        self.accessories = Accs(fmt)
        self.state_num, self.config_num, self.broadcast_key = state_num, config_num, None


def new_pairing(M, fmt="uint8", cached_state=True, description=None):
    p = object.__new__(M.blep.BlePairing)
    p._shutdown = False
    p.description = description
    p.device = None
    p.ble_advertisement = None
    p.client = None
    p._encryption_key = None
    p.pairing_data = {"AccessoryAddress": "aa:bb", "iOSPairingId": "me", "AccessoryPairingID": ADV_ID_STR}
    p.id = ADV_ID_STR
    p._accessories_state = State(fmt) if cached_state else None
    p._last_seen = time.monotonic()
    p._broadcast_decryption_key = None
    p.calls = []
    p.polls = []
    p.cache_writes = []
    p.listeners = {p.calls.append}
    p.availability_listeners = set()
    p._process_disconnected_events = lambda: p.polls.append(1)
    p._update_accessories_state_cache = lambda: p.cache_writes.append(1)
    p._tried_to_connect_once = True
    return p
