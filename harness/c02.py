"""C02 - SRP-6a client values equal those of a spec-conformant accessory.
Real code: aiohomekit/crypto/srp.py (pad_left, to_byte_array, Srp, SrpClient) and the byte-level use of the client in
protocol/__init__.py perform_pair_setup_part2.

Symbolic side: integers are mathematical ints; a big-endian byte string is the abstract encoding BE(value, width) whose
width may be symbolic (the minimal byte length L(v) is a free integer 0..len), zeros(k)||BE(v,n) = BE(v,k+n); SHA-512 is a
free function from byte strings to 512-bit integers (no collisions between provably different inputs); modular
exponentiation is a free function.  Because L(v) is unconstrained below the padded width, every leading-zero situation of
A, B, S, the salt and the digests is inside one query.
Concrete side (replay / differential): the real SrpClient against an independent reference written with hashlib/pow,
with a directed search for ephemeral secrets that put a leading zero byte into the selected quantity."""
import hashlib
import math as real_math
import os as real_os
import random

import aiohomekit.crypto.srp as real_srp
import aiohomekit.protocol as real_proto
import aiohomekit.protocol.tlv as real_tlv
import z3

from symx import Unit, as_rope, check_property, decide, load, rope_eq, run_canaries, slen
from symx.core import SymInt, Unsupported, ex as cur_ex, provable
from symx.ideal import World
from symx.rope import IntSeg, SymBytes

from . import common, hap
from .refs import rope

PROP = "C02"
SRP, PROTO, TLVM = "aiohomekit.crypto.srp", "aiohomekit.protocol", "aiohomekit.protocol.tlv"
CODE = "111-22-333"
LZ = ["none", "A", "S", "K", "M1", "M2", "salt", "B"]


# ------------------------------------------------------------------ shims for the module copy
class BitLen:
    def __init__(self, v):
        self.v = v

    def __truediv__(self, k):
        assert k == 8
        return self


def sym_bit_length(self):
    return BitLen(self)


class MathShim:
    def __getattr__(self, k):
        return getattr(real_math, k)

    @staticmethod
    def ceil(x):
        if not isinstance(x, BitLen):
            return real_math.ceil(x)
        e = cur_ex()
        L = e.scratch.setdefault("minlen_of", {})
        key = (x.v.lin, x.v.k)
        if key not in L:
            n = e.fresh_name("minlen")
            t = z3.Int(n)
            e.add(z3.And(t >= 0, t <= 4096))
            for k in (16, 64, 384):  # v < 256^k  =>  minimal length <= k
                e.add(z3.Implies(x.v.t < 256 ** k, t <= k))
            s = SymInt(t)
            L[key] = s
            e.scratch.setdefault("minlen", {})[s.lin] = key
        return L[key]


MODEXP = z3.Function("modexp", z3.IntSort(), z3.IntSort(), z3.IntSort(), z3.IntSort())


def s_pow(b, e, m=None):
    if m is not None and any(isinstance(x, SymInt) for x in (b, e, m)):
        from symx.core import toz
        bm = b % m if isinstance(b, SymInt) else b % m
        r = MODEXP(toz(bm), toz(e), toz(m))
        cur_ex().add(z3.And(r >= 0, r < toz(m)))
        return SymInt(r)
    return pow(b, e) if m is None else pow(b, e, m)


class Sha:
    """free function: byte string -> 512-bit integer, returned as its 64-byte big-endian encoding"""

    def __init__(self, data=b""):
        self.data = as_rope(data)

    def update(self, more):
        self.data = self.data + as_rope(more)

    def digest(self):
        c = self.data.concrete_or_none() if all(sg.conc is not None for sg in self.data.segs) else None
        if c is not None:
            return hashlib.sha512(c).digest()
        e = cur_ex()
        table = e.scratch.setdefault("sha", [])
        for inp, hv in table:
            try:
                if provable(rope_eq(inp, self.data)):
                    return SymBytes([IntSeg(hv, 64, "big")])
            except Unsupported:
                continue
        t = z3.Int(e.fresh_name("sha512"))
        e.add(z3.And(t > 0, t < 2 ** 512))  # a digest is never all zero bytes (part of the random-oracle assumption)
        for _inp, other in table:
            e.add(t != other.t)  # no collisions (random-oracle assumption)
        hv = SymInt(t)
        table.append((self.data, hv))
        return SymBytes([IntSeg(hv, 64, "big")])


class HashlibShim:
    sha512 = Sha


class OsShim:
    @staticmethod
    def urandom(n):
        e = cur_ex()
        k = e.scratch["urandom_calls"] = e.scratch.get("urandom_calls", 0) + 1
        v = e.fresh_int("a_secret" if k == 1 else "a_secret%d" % k, 0, 256 ** n - 1)
        return SymBytes([IntSeg(v, n, "big")])


def copies(mutate=None):
    mutate = mutate or {}

    class M:
        pass

    m = M()
    m.srp = load(SRP, src_transform=mutate.get(SRP), builtins_extra={"pow": s_pow},
                 deps={"hashlib": HashlibShim, "math": MathShim(), "os": OsShim})
    SymInt.bit_length = sym_bit_length
    m.tlv = load(TLVM, src_transform=mutate.get(TLVM))
    common.keep_tlv_to_string(m.tlv)
    m.proto = load(PROTO, deps={TLVM: m.tlv}, src_transform=mutate.get(PROTO))
    hap.patch_protocol_copy(m.proto)
    m.proto.SrpClient = m.srp.SrpClient  # the byte-level use in pair-setup runs on the real SRP client copy
    return m


def reals():
    class M:
        pass

    m = M()
    m.srp, m.proto, m.tlv = real_srp, real_proto, real_tlv
    return m


# ------------------------------------------------------------------ reference (RFC 5054 / RFC 2945 + HAP padding rules)
N = real_srp.MODULUS_VALUE
G = real_srp.GENERATOR_VALUE
N_BYTES = N.to_bytes(384, "big")
K_MULT = int.from_bytes(hashlib.sha512(N_BYTES + G.to_bytes(384, "big")).digest(), "big")  # k = H(N | PAD(g))
H_GROUP = bytes(a ^ b for a, b in zip(hashlib.sha512(N_BYTES).digest(), hashlib.sha512(b"\x05").digest()))


def ref_constants():
    errs = []
    if real_srp.CLIENT_K_VALUE != K_MULT:
        errs.append("k != H(N | PAD(g))")
    if real_srp.H_GROUP != H_GROUP:
        errs.append("H(N) xor H(g) differs")
    rfc_head, rfc_tail = "FFFFFFFFFFFFFFFFC90FDAA22168C234C4C6628B80DC1CD1", "E0FD108E4B82D120A93AD2CAFFFFFFFFFFFFFFFF"
    hx = "%X" % N
    if not (hx.startswith(rfc_head) and hx.endswith(rfc_tail) and N.bit_length() == 3072 and G == 5):
        errs.append("group is not the RFC 5054 3072-bit group")
    return {"cases": 3, "errors": errs}


def be(v, n):
    """PAD(v) to n bytes, big-endian"""
    if isinstance(v, int):
        return v.to_bytes(n, "big")
    return SymBytes([IntSeg(v, n, "big")])


def H(sym, *parts):
    if sym:
        return Sha(rope(*parts)).digest()
    return hashlib.sha512(b"".join(bytes(p) for p in parts)).digest()


def as_int(d):
    if isinstance(d, (bytes, bytearray)):
        return int.from_bytes(d, "big")
    from symx.rope import rope_to_int
    return rope_to_int(d, "big")


def reference(sym, a, Bv, saltv, code):
    """what a conformant accessory computes for this exchange"""
    A = s_pow(G, a, N) if sym else pow(G, a, N)
    u = as_int(H(sym, be(A, 384), be(Bv, 384)))
    x = as_int(H(sym, be(saltv, 16), H(sym, ("Pair-Setup:%s" % code).encode())))
    v = s_pow(G, x, N) if sym else pow(G, x, N)
    S = s_pow(Bv - K_MULT * v, a + u * x, N) if sym else pow(Bv - K_MULT * v, a + u * x, N)
    K = H(sym, be(S, 384))
    M1 = H(sym, H_GROUP, H(sym, b"Pair-Setup"), be(saltv, 16), be(A, 384), be(Bv, 384), K)
    M2 = H(sym, be(A, 384), M1, K)
    return {"A": be(A, 384), "S": be(S, 384), "K": K, "M1": M1, "M2": M2}


def eq(sym, a, b):
    return rope_eq(a, b) if sym else bytes(a) == bytes(b)


# ------------------------------------------------------------------ directed search on the concrete side
_CASES = None


def case(lz, seed):
    """(a, B, salt) with a leading zero byte in the selected quantity: from the committed table (mined once with find_case,
    which only uses the harness-side reference), re-validated against the reference on use"""
    global _CASES
    if _CASES is None:
        import json
        import os
        p = os.path.join(os.path.dirname(os.path.abspath(__file__)), "c02_cases.json")
        _CASES = json.load(open(p)) if os.path.exists(p) else {}
    k = "%s/%d" % (lz, seed % 4)
    if k in _CASES:
        a, Bv, salt = (int(x) for x in _CASES[k])
        if lz in ("A", "S", "K", "M1", "M2") and reference(False, a, Bv, salt, CODE)[lz][0] != 0:
            raise RuntimeError("stale leading-zero case table entry %s" % k)
        return a, Bv, salt
    return find_case(lz, seed % 4)


def find_case(lz, seed, code=CODE):
    """ephemeral secrets / salt such that the selected quantity starts with a 0x00 byte (1 in 256 per try)"""
    rng = random.Random(seed * 1000003 + LZ.index(lz))
    for _ in range(20000):
        a = rng.getrandbits(128)
        b = rng.getrandbits(128)
        salt = rng.getrandbits(128) if lz != "salt" else rng.getrandbits(120)
        x = int.from_bytes(hashlib.sha512(salt.to_bytes(16, "big") + hashlib.sha512(("Pair-Setup:%s" % code).encode()).digest()).digest(), "big")
        v = pow(G, x, N)
        Bv = (K_MULT * v + pow(G, b, N)) % N
        if lz == "B" and Bv >> (8 * 383):
            continue
        if lz in ("none", "salt", "B"):
            return a, Bv, salt
        r = reference(False, a, Bv, salt, code)
        if r[lz][0] == 0:
            return a, Bv, salt
    raise RuntimeError("no %s case found" % lz)


# ------------------------------------------------------------------ units
def client_unit(M):
    """SrpClient public API vs the reference, every leading-zero situation"""
    def h(ex):
        sym = not getattr(ex, "concrete", False)
        lz = ex.choice("leading_zero_in", LZ)
        seed = ex.fresh_int("seed", 0, 7)
        if sym:
            Bv = ex.fresh_int("B", 0, N - 1)
            saltv = ex.fresh_int("salt", 0, 256 ** 16 - 1)
            c = M.srp.SrpClient("Pair-Setup", CODE)
            a = c.a
        else:
            a, Bv, saltv = case(lz, seed)
            saved = real_srp.Srp.__dict__["generate_private_key"]  # the staticmethod object itself, so that restoring it keeps it static
            real_srp.Srp.generate_private_key = staticmethod(lambda: a)
            try:
                c = M.srp.SrpClient("Pair-Setup", CODE)
            finally:
                real_srp.Srp.generate_private_key = saved
        mk = (lambda r: M.srp.__builtins__["bytearray"](r)) if sym else bytearray
        c.set_salt(mk(be(saltv, 16)))
        c.set_server_public_key(be(Bv, 384))
        ref = reference(sym, a, Bv, saltv, CODE)
        # the public API in the orders a caller may use it: the premaster secret inspected first (and again later), or the
        # accessory's proof checked before the client's own proof was ever asked for
        order = ex.choice("call_order", ["K-first", "S-first", "verify-first"])
        if order == "S-first":
            ex.require(eq(sym, c.get_shared_secret_bytes(), ref["S"]), "premaster secret S = PAD((B - k g^x)^(a + u x))")
        if order == "verify-first":
            ex.require(bool(c.verify_servers_proof_bytes(ref["M2"])) is True, "the correct accessory proof is accepted, also before the client's own proof was requested")
        ex.require(eq(sym, c.get_public_key_bytes(), ref["A"]), "public value A is g^a mod N padded to 384 bytes")
        ex.require(eq(sym, c.get_session_key_bytes(), ref["K"]), "session key K = H(PAD(S)), S = (B - k g^x)^(a + u x), u = H(PAD(A)|PAD(B)), x = H(s|H(I:P))")
        if order == "S-first":
            ex.require(eq(sym, c.get_shared_secret_bytes(), ref["S"]), "the premaster secret is the same when it is derived again")
        ex.require(eq(sym, c.get_proof_bytes(), ref["M1"]), "proof M1 = H(H(N) xor H(g) | H(I) | s | PAD(A) | PAD(B) | K)")
        ex.require(slen(c.get_proof_bytes()) == 64 and slen(c.get_session_key_bytes()) == 64 and slen(c.get_public_key_bytes()) == 384,
                   "A, M1 and K have their full lengths (leading zero bytes kept)")
        ex.require(bool(c.verify_servers_proof_bytes(ref["M2"])) is True, "the correct accessory proof H(PAD(A)|M1|K) is accepted")
        # wrong proofs: from an accessory with another setup code; the right proof with one byte changed; K instead of M2
        other = reference(sym, a, Bv, saltv, "999-99-999")
        ex.require(not c.verify_servers_proof_bytes(other["M2"]), "the proof of an accessory that holds another setup code is rejected")
        ex.require(not c.verify_servers_proof_bytes(ref["M1"]), "the client's own proof is not accepted as the accessory's proof")
        m2 = as_rope(ref["M2"]) if sym else bytes(ref["M2"])
        ex.require(not c.verify_servers_proof_bytes(b""), "an empty proof is rejected")
        tail, last = (m2.slice(1, 64), m2.slice(63, 64)) if sym else (m2[1:], m2[63:])
        first_nonzero = decide(m2[0] != 0)
        if first_nonzero:
            ex.require(not c.verify_servers_proof_bytes(tail), "the correct proof without its (non-zero) first byte is rejected")
        if decide(as_int(m2.slice(0, 63) if sym else m2[:63]) != 0):
            ex.require(not c.verify_servers_proof_bytes(last), "the last byte of the correct proof alone is rejected")
        if not sym:
            flipped = bytearray(ref["M2"])
            flipped[seed % 64] ^= 1 << (seed % 8)
            ex.require(not c.verify_servers_proof_bytes(bytes(flipped)), "a proof with one bit changed is rejected")
            ex.require(ref[lz][0] == 0 if lz in ("A", "S", "K", "M1", "M2") else True, "(search) the selected quantity has a leading zero byte")
        ex.tag("lz-" + lz)
        return ex.observe("ok")
    return h


def wrong_code_unit(M):
    """a client that was given the wrong setup code never produces a proof the accessory accepts"""
    def h(ex):
        sym = not getattr(ex, "concrete", False)
        seed = ex.fresh_int("seed", 0, 7)
        if sym:
            Bv = ex.fresh_int("B", 0, N - 1)
            saltv = ex.fresh_int("salt", 0, 256 ** 16 - 1)
            c = M.srp.SrpClient("Pair-Setup", "999-99-999")
            a = c.a
        else:
            a, Bv, saltv = case("none", seed)
            saved = real_srp.Srp.__dict__["generate_private_key"]  # the staticmethod object itself, so that restoring it keeps it static
            real_srp.Srp.generate_private_key = staticmethod(lambda: a)
            try:
                c = M.srp.SrpClient("Pair-Setup", "999-99-999")
            finally:
                real_srp.Srp.generate_private_key = saved
        mk = (lambda r: M.srp.__builtins__["bytearray"](r)) if sym else bytearray
        c.set_salt(mk(be(saltv, 16)))
        c.set_server_public_key(be(Bv, 384))
        ref = reference(sym, a, Bv, saltv, CODE)  # what the accessory (right code) expects
        r = eq(sym, c.get_proof_bytes(), ref["M1"])
        ex.require(not decide(r) if sym else not r, "a wrong setup code never yields the proof the accessory expects")
        return ex.observe("ok")
    return h


def two_exchanges_unit(M):
    """a mistyped setup code followed by the right one against the same accessory salt, in one process: nothing of the first
    exchange may leak into the second"""
    def h(ex):
        sym = not getattr(ex, "concrete", False)
        seed = ex.fresh_int("seed", 0, 7)
        clients = []
        if sym:
            Bv = ex.fresh_int("B", 0, N - 1)
            saltv = ex.fresh_int("salt", 0, 256 ** 16 - 1)
            for code in ("999-99-999", CODE):
                clients.append(M.srp.SrpClient("Pair-Setup", code))
            a = clients[1].a
        else:
            a, Bv, saltv = case("none", seed)
            saltv ^= 0x5A5A5A5A  # a salt no other unit uses in this process (process-wide state must come from this unit's first exchange)
            saved = real_srp.Srp.__dict__["generate_private_key"]  # the staticmethod object itself, so that restoring it keeps it static
            real_srp.Srp.generate_private_key = staticmethod(lambda: a)
            try:
                for code in ("999-99-999", CODE):
                    clients.append(M.srp.SrpClient("Pair-Setup", code))
            finally:
                real_srp.Srp.generate_private_key = saved
        mk = (lambda r: M.srp.__builtins__["bytearray"](r)) if sym else bytearray
        ref = reference(sym, a, Bv, saltv, CODE)
        for i, c in enumerate(clients):
            c.set_salt(mk(be(saltv, 16)))
            c.set_server_public_key(be(Bv, 384))
            k, m1 = c.get_session_key_bytes(), c.get_proof_bytes()
            if i == 1:
                ex.require(eq(sym, k, ref["K"]), "second exchange (right code after a mistyped one, same salt): session key is the reference K")
                ex.require(eq(sym, m1, ref["M1"]), "second exchange (right code after a mistyped one, same salt): proof is the reference M1")
                ex.require(bool(c.verify_servers_proof_bytes(ref["M2"])) is True, "second exchange: the correct accessory proof is accepted")
        return ex.observe("ok")
    return h


def protocol_unit(M):
    """byte-level use in pair-setup: M3 carries PAD(A) and M1; M5 is sealed under HKDF(K bytes) with K the 64-byte digest"""
    def h(ex):
        from .c01 import T_ENC, T_PROOF, T_PUBKEY, T_STATE, send
        sym = not getattr(ex, "concrete", False)
        lz = ex.choice("leading_zero_in", LZ)
        seed = ex.fresh_int("seed", 0, 7)
        bk = hap.backend(ex, M.proto)
        if sym:
            Bv = ex.fresh_int("B", 0, N - 1)
            saltv = ex.fresh_int("salt", 0, 256 ** 16 - 1)
            mk = M.srp.__builtins__["bytearray"]
            gen = M.proto.perform_pair_setup_part2(CODE, hap.IOS_ID, mk(be(saltv, 16)), mk(be(Bv, 384)))
            req, expected = gen.send(None)
            a = SymInt(z3.Int("a_secret"))
        else:
            a, Bv, saltv = case(lz, seed)
            saved = real_srp.Srp.__dict__["generate_private_key"]  # the staticmethod object itself, so that restoring it keeps it static
            real_srp.Srp.generate_private_key = staticmethod(lambda: a)
            try:
                gen = M.proto.perform_pair_setup_part2(CODE, hap.IOS_ID, bytearray(be(saltv, 16)), bytearray(be(Bv, 384)))
                req, expected = gen.send(None)
            finally:
                real_srp.Srp.generate_private_key = saved
        ref = reference(sym, a, Bv, saltv, CODE)
        r3 = dict(req)
        ex.require(eq(sym, r3[T_PUBKEY], ref["A"]), "M3 public key is PAD(A), 384 bytes")
        ex.require(eq(sym, r3[T_PROOF], ref["M1"]), "M3 proof is M1, 64 bytes")
        req, expected = send(M, bk, gen, [(T_STATE, b"\x04"), (T_PROOF, ref["M2"])], expected)
        enc_key = bk.hkdf(ref["K"], b"Pair-Setup-Encrypt-Salt", b"Pair-Setup-Encrypt-Info")
        pt = bk.decrypt(enc_key, b"PS-Msg05", dict(req)[T_ENC])
        ex.require(pt is not None, "M5 opens under HKDF(K) with K the 64-byte session key the accessory derives (no integer round trip)")
        ex.tag("lz-" + lz)
        return ex.observe("ok")
    return h


def build(tier, mutate=None):
    C = copies(mutate)
    R = reals()
    units = [
        Unit("client/values-vs-reference", client_unit(C), client_unit(R), bounds={"a": "0..2^128-1", "B": "0..N-1", "salt": "0..2^128-1 (16 bytes)",
                                                                                  "minimal byte lengths": "free (every leading-zero situation)",
                                                                                  "concrete side": "directed search (table of 4 mined cases per class), %d leading-zero classes" % len(LZ)},
             regions=["lz-" + x for x in LZ]),
        Unit("client/two-exchanges-same-salt", two_exchanges_unit(C), two_exchanges_unit(R), bounds={"exchanges": "mistyped code, then the right code; same salt and B"}),
        Unit("client/wrong-code", wrong_code_unit(C), wrong_code_unit(R), bounds={"codes": "111-22-333 vs 999-99-999"}),
        Unit("protocol/byte-level-use", protocol_unit(C), protocol_unit(R), bounds={"leading zero in": LZ},
             regions=["lz-none", "lz-K", "lz-M2"]),
    ]
    if tier != "canary":
        # what the exchange does with a wrong, missing or misplaced accessory proof is decided by C03's unit (ideal SRP)
        from . import c03
        units.append(Unit("protocol/M4-M6 (unit of C03)", c03.part2(c03.copies(mutate)), c03.part2(c03.reals()), split=True,
                          bounds={"M4 proof": c03.PROOFS, "M6": c03.M6S}, regions=["m4-rejected", "paired"]))
    for u in units:
        u.diff_sample = 100000
    return units


CANARIES = [
    ("S not padded", {SRP: lambda s: s.replace("return pad_left(Srp.to_byte_array(self.get_shared_secret()), HK_KEY_LENGTH)", "return bytes(Srp.to_byte_array(self.get_shared_secret()))")}, lambda n: n.startswith("client/values")),
    ("A not padded", {SRP: lambda s: s.replace("self.A_b = pad_left(to_byte_array(self.A), HK_KEY_LENGTH)  # public key as bytes\n        self.k", "self.A_b = bytes(to_byte_array(self.A))\n        self.k")}, lambda n: n.startswith("client/values")),
    ("salt not padded", {SRP: lambda s: s.replace("self.salt_b = pad_left(to_byte_array(self.salt), 16)", "self.salt_b = bytes(to_byte_array(self.salt))")}, lambda n: n.startswith("client/values")),
    ("A and B swapped in M1", {SRP: lambda s: s.replace("            self.salt_b,\n            self.A_b,\n            self.B_b,\n            K,", "            self.salt_b,\n            self.B_b,\n            self.A_b,\n            K,")}, lambda n: n.startswith("client/values")),
    ("K through an integer in pair-setup", {PROTO: lambda s: s.replace("    session_key_bytes = srp_client.get_session_key_bytes()\n\n    ios_device_ltsk", "    session_key_bytes = SrpClient.to_byte_array(srp_client.get_session_key())\n\n    ios_device_ltsk")}, lambda n: n.startswith("protocol/")),
]

ASSUMPTIONS = [
    "SHA-512 is a free function from byte strings to 512-bit integers with no collisions between inputs that are not provably equal; modular exponentiation is a free function with 0 <= r < m and base reduction mod m; the number-theoretic fact that client and server S coincide is taken from the RFC",
    "big-endian byte strings are abstract encodings BE(value, width); the minimal byte length of a value is a free integer, so every leading-zero situation of A, B-as-sent, S, the salt and the digests is covered by one query",
    "the concrete side replays each leading-zero class on the real SrpClient against an independent hashlib/pow reference, found by seeded directed search (4 mined cases per class, committed table re-validated against the reference on use)",
    "salts other than 16 bytes and a B that the accessory sends with fewer than 384 bytes are outside; constants k, H(N) xor H(g) and the group are checked concretely",
]


def main(tier, seed, only=None):
    units = common.filter_units(build(tier), only)
    can = None
    if tier == "thorough" and only is None:
        can = lambda: run_canaries(lambda mut: build("canary", mut), CANARIES, seed)
    return check_property(
        PROP, units, tier, seed,
        explanation="The real SrpClient (and its byte-level use in perform_pair_setup_part2) runs with integers as mathematical ints, "
                    "big-endian strings as abstract (value, width) encodings with free minimal lengths, SHA-512 and modexp as free "
                    "functions: z3 proves that A, K, M1 and the accepted M2 are the terms of the RFC 5054/HAP reference for every a, B, "
                    "salt and every leading-zero situation; the real arithmetic is replayed per leading-zero class by directed search.",
        assumptions=ASSUMPTIONS, stubs=["hashlib.sha512 -> free function", "pow -> free function", "os.urandom -> symbolic secret", "math.ceil(bit_length/8) -> free minimal length"],
        bounds={"tier": tier}, canaries=can, extra_checks=[] if only else [("constants (concrete)", ref_constants)], design_ref="DESIGN.md section 5, C02")


def replay(doc):
    return common.std_replay(PROP, build("thorough"), doc)
