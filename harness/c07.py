"""C07 - HTTP/EVENT parsing is independent of stream segmentation.
Real code: http/response.py (HttpResponse) + InsecureHomeKitProtocol.data_received feed loop."""
import random

import aiohomekit.controller.ip.connection as real_conn
import aiohomekit.http.response as real_http

from symx import Unit, as_rope, check_property, decide, load, rope_eq, run_canaries, slen
from symx.rope import SymBytes, cseg

from . import common

PROP = "C07"
CONN = "aiohomekit.controller.ip.connection"
HTTP = "aiohomekit.http.response"


def copies(mutate=None):
    mutate = mutate or {}
    H = load(HTTP, src_transform=mutate.get(HTTP))
    C = load(CONN, deps={HTTP: H}, src_transform=mutate.get(CONN))
    return C


# ------------------------------------------------------------------ templates (harness-side, independent of the parser)
def render(msgs):
    """messages -> (stream bytes, expected list).  msg = dict(kind, code, reason, headers, body, mode, chunks, hexcase)"""
    out = b""
    expected = []
    for m in msgs:
        head = b"%s %d %s\r\n" % (m["kind"].encode(), m["code"], m["reason"].encode())
        hdrs = list(m["headers"])
        body = m.get("body", b"")
        mode = m["mode"]
        if mode == "cl":
            hdrs.insert(m.get("clpos", len(hdrs)), (m.get("clname", "Content-Length"), str(len(body))))
        elif mode == "chunked":
            hdrs.insert(m.get("clpos", len(hdrs)), (m.get("tename", "Transfer-Encoding"), "chunked"))
        for n, v in hdrs:
            head += n.encode() + m.get("sep", ": ").encode() + v.encode() + b"\r\n"
        head += b"\r\n"
        if mode == "cl":
            payload = body
        elif mode == "chunked":
            payload = b""
            pos = 0
            for c in m["chunks"]:
                hx = ("%X" if m.get("hexcase") == "upper" else "%x") % c
                payload += hx.encode() + b"\r\n" + body[pos:pos + c] + b"\r\n"
                pos += c
            assert pos == len(body)
            payload += b"0\r\n\r\n"
        else:
            payload = b""
            body = b""
        out += head + payload
        expected.append([m["kind"].split("/")[0], m["code"], [[n.strip().lower(), v.strip()] for n, v in hdrs], body])
    return out, expected


JSON1 = b'{"characteristics":[{"aid":1,"iid":10,"value":23.5}]}'
TRICKY = b'line1\r\n0\r\n\r\nA\r\nHTTP/1.1 200 OK\r\n\r\nff\r\n'


def core_templates():
    H = "HTTP/1.1"
    E = "EVENT/1.0"
    ct = ("Content-Type", "application/hap+json")
    t = []
    t.append(("cl-json", [dict(kind=H, code=200, reason="OK", headers=[ct], body=JSON1, mode="cl")]))
    t.append(("204-nobody", [dict(kind=H, code=204, reason="No Content", headers=[], mode="none")]))
    t.append(("cl0", [dict(kind=H, code=200, reason="OK", headers=[ct], body=b"", mode="cl")]))
    t.append(("chunked-5-1", [dict(kind=H, code=200, reason="OK", headers=[ct], body=b"helloX", mode="chunked", chunks=[5, 1])]))
    t.append(("chunked-tricky-body", [dict(kind=H, code=207, reason="Multi-Status", headers=[ct], body=TRICKY, mode="chunked",
                                           chunks=[16, 3, len(TRICKY) - 19], hexcase="upper", tename="transfer-encoding")]))
    t.append(("event-cl", [dict(kind=E, code=200, reason="OK", headers=[ct], body=b'{"x":1}', mode="cl", clname="content-length")]))
    t.append(("event+http", [dict(kind=E, code=200, reason="OK", headers=[ct], body=b'{"e":true}', mode="cl"),
                             dict(kind=H, code=200, reason="OK", headers=[("Date", "Thu, 01 Jan 1970 00:00:00 GMT"), ct], body=JSON1, mode="cl", clpos=0)]))
    t.append(("http+event+204", [dict(kind=H, code=470, reason="Connection Authorization Required", headers=[], body=b"", mode="cl"),
                                 dict(kind=E, code=200, reason="OK", headers=[ct], body=b"ab\r\ncd", mode="cl"),
                                 dict(kind=H, code=204, reason="No Content", headers=[], mode="none")]))
    t.append(("chunked+cl", [dict(kind=H, code=200, reason="OK", headers=[], body=b"x" * 17, mode="chunked", chunks=[16, 1]),
                             dict(kind=H, code=400, reason="Bad Request", headers=[("Connection", "close")], body=b'{"status":-70410}', mode="cl")]))
    t.append(("chunked-empty", [dict(kind=H, code=200, reason="OK", headers=[ct], body=b"", mode="chunked", chunks=[]),
                                dict(kind=E, code=200, reason="OK", headers=[], body=b"1", mode="cl")]))
    t.append(("cl-body-looks-like-http", [dict(kind=H, code=200, reason="OK", headers=[ct], body=TRICKY, mode="cl"),
                                          dict(kind=H, code=204, reason="No Content", headers=[], mode="none")]))
    t.append(("header-casing", [dict(kind=H, code=200, reason="OK", headers=[("content-type", "application/hap+json"), ("X-a", " padded ")],
                                     body=b"0123456789abcdef0", mode="cl", clname="CONTENT-LENGTH", sep=":")]))
    return t


def random_templates(rng, count, max_len):
    out = []
    tries = 0
    while len(out) < count and tries < count * 50:
        tries += 1
        msgs = []
        for _ in range(rng.randint(1, 3)):
            kind = rng.choice(["HTTP/1.1", "HTTP/1.1", "EVENT/1.0"])
            code, reason = rng.choice([(200, "OK"), (204, "No Content"), (207, "Multi-Status"), (400, "Bad Request"), (470, "Connection Authorization Required")])
            hdrs = rng.sample([("Content-Type", "application/hap+json"), ("Date", "x"), ("Connection", "keep-alive"), ("cache-control", "no-cache")], rng.randint(0, 2))
            mode = "none" if code == 204 else rng.choice(["cl", "cl", "chunked"])
            m = dict(kind=kind, code=code, reason=reason, headers=hdrs, mode=mode, clpos=rng.randint(0, len(hdrs)),
                     clname=rng.choice(["Content-Length", "content-length", "CONTENT-LENGTH"]),
                     tename=rng.choice(["Transfer-Encoding", "transfer-encoding"]), hexcase=rng.choice(["upper", "lower"]))
            if mode == "cl":
                n = rng.choice([0, 1, 2, 17, 40])
                m["body"] = bytes(rng.choice(b"ab\r\n0{}:") for _ in range(n))
            elif mode == "chunked":
                chunks = rng.choice([[1], [5, 1], [16, 3, 9], [26], []])
                m["chunks"] = chunks
                m["body"] = bytes(rng.choice(b"ab\r\n0{}:") for _ in range(sum(chunks)))
            msgs.append(m)
        s, _ = render(msgs)
        if len(s) <= max_len:
            out.append(("rnd%d" % len(out), msgs))
    return out


# ------------------------------------------------------------------ unit
class Fut:
    def __init__(self):
        self.res = None
        self._done = False

    def done(self):
        return self._done

    def set_result(self, r):
        self.res, self._done = r, True


class Conn:
    def __init__(self):
        self.events = []

    def event_received(self, r):
        self.events.append(r)


def seg_unit(M, msgs, K):
    stream, expected = render(msgs)
    n = len(stream)
    n_http = sum(1 for e in expected if e[0] == "HTTP")

    def h(ex):
        sym = not getattr(ex, "concrete", False)
        cuts = [0]
        for k in range(K):
            c = ex.fresh_int("cut%d" % k, 0, n)
            ex.assume(c >= cuts[-1])
            cuts.append(c)
        cuts.append(n)
        base = SymBytes([cseg(stream)])
        p = object.__new__(M.InsecureHomeKitProtocol)
        p.connection = Conn()
        futs = [Fut() for _ in range(n_http)]
        p.result_cbs = list(futs)
        p.current_response = M.HttpResponse()
        order = []
        which = []
        # observe completion order through the two sinks, and which queued request each response resolves
        for i, f in enumerate(futs):
            f.set_result = (lambda r, f=f, i=i: (order.append(r), which.append(i), Fut.set_result(f, r)))
        p.connection.event_received = lambda r: order.append(r)
        for a, b in zip(cuts, cuts[1:]):
            part = base.slice(a, b)
            p.data_received(part if sym else bytes(part.concrete()))
        got = []
        for r in order:
            got.append([r.get_http_name(), r.code, [[nm.lower(), v] for nm, v in r.headers], r.body])
        ok = len(got) == len(expected)
        ex.require(ok, "parse: number of completed messages equals what was sent")
        if ok:
            for g, w in zip(got, expected):
                ex.require(g[0] == w[0] and g[1] == w[1], "parse: kind and status code, in order")
                ex.require(g[2] == w[2], "parse: headers that were sent")
                ex.require(rope_eq(g[3], w[3]), "parse: body equals what was sent")
        ex.require(all(f.done() for f in futs) and not p.result_cbs, "feed: every HTTP response resolves its request future")
        ex.require(which == list(range(len(which))), "feed: the i-th HTTP response resolves the i-th queued request (oldest first)")
        cur = p.current_response
        ex.require(cur._state == 0 and slen(cur._raw_response) == 0 and slen(cur.body) == 0,
                   "feed: nothing left over in the parser after the last message")
        if any(decide(c > 0) and decide(c < n) for c in cuts[1:-1]):
            ex.tag("interior-cut")
        return ex.observe([[g[0], g[1], g[2], g[3]] for g in got])
    return h


def build(tier, mutate=None, seed=0):
    C = copies(mutate)
    units = []
    core = core_templates()
    rng = random.Random(1000 + seed)
    if tier == "canary":
        plan = [(nm, ms, 1) for nm, ms in core[:8]] + [("chunked-tricky-body", core[4][1], 2)]
    elif tier == "quick":
        plan = [(nm, ms, 2) for nm, ms in core] + [(nm, ms, 1) for nm, ms in random_templates(rng, 12, 220)]
    else:
        plan = ([(nm, ms, 2) for nm, ms in core] + [(nm, ms, 2) for nm, ms in random_templates(rng, 100, 300)]
                + [(nm + "/k3", ms, 3) for nm, ms in core if len(render(ms)[0]) <= 120]
                + [(nm + "/k3", ms, 3) for nm, ms in random_templates(random.Random(5000 + seed), 16, 110)])
    for nm, ms, K in plan:
        stream, exp = render(ms)
        units.append(Unit("seg/%s/cuts=%d" % (nm, K), seg_unit(C, ms, K), seg_unit(real_conn, ms, K), split=(K >= 2),
                          bounds={"stream_bytes": len(stream), "messages": len(ms), "cuts": "%d, all positions (symbolic)" % K},
                          regions=["interior-cut"]))
    if tier != "canary":
        # on a secure session the same bytes arrive inside encrypted frames: a read boundary anywhere in a frame - length prefix,
        # ciphertext or tag - must not lose or damage it (unit of C05)
        from . import c05
        units.append(Unit("secure-frames/F=2,R=2 (unit of C05)", c05.inbound(c05.copies(mutate), 2, 2, None), c05.inbound(c05.real_conn, 2, 2, None), split=True,
                          bounds={"frames": 2, "reads": 2, "plaintext_len": "0..1024 each (symbolic)", "cuts": "all positions (symbolic)"},
                          regions=["interior-cut"]))
    return units


CANARIES = [
    ("chunk put-back drops CRLF", {HTTP: lambda s: s.replace('self._raw_response = line + b"\\r\\n" + self._raw_response', "self._raw_response = line + self._raw_response")}, None),
    ("leftover not returned", {HTTP: lambda s: s.replace("            return self._raw_response\n\n        return bytearray()", "            return bytearray()\n\n        return bytearray()")}, None),
    ("chunk terminator check off by one", {HTTP: lambda s: s.replace("if length + 2 > len(self._raw_response):", "if length + 1 > len(self._raw_response):")}, None),
    ("event consumed as a response", {CONN: lambda s: s.replace('                if http_name == "http":', '                if http_name in ("http", "event"):')}, None),
]

ASSUMPTIONS = [
    "message *content* is enumerated (templates: fixed core + seeded random), only the segmentation is symbolic: every placement of the k cut points of each stream is covered by the solver",
    "header names compared case-insensitively, values stripped (the parser title-cases; the property asks for 'the headers that were sent')",
    "well-formed streams only: no chunk extensions, trailers, Content-Length together with chunked, LF-only line ends",
    "request futures and the owner's event sink are recorders; InsecureHomeKitProtocol built with object.__new__",
]


def main(tier, seed, only=None):
    units = common.filter_units(build(tier, seed=seed), only)
    can = None
    if tier == "thorough" and only is None:
        can = lambda: run_canaries(lambda mut: build("canary", mut), CANARIES, seed)
    return check_property(
        PROP, units, tier, seed,
        explanation="The real HttpResponse.parse and the InsecureHomeKitProtocol.data_received feed loop run on windows with symbolic "
                    "bounds over concrete template streams: for every placement of the cut points the completed messages (kind, code, "
                    "headers, body) equal the template's, in order, and nothing is left in the parser.",
        assumptions=ASSUMPTIONS, stubs=["request futures -> recorder", "connection.event_received -> recorder", "logger -> no-op"],
        bounds={"tier": tier}, canaries=can, design_ref="DESIGN.md section 5, C07")


def replay(doc):
    return common.std_replay(PROP, build("thorough"), doc)
