"""C13 - reads and writes report per-characteristic outcomes faithfully (IP read/write, CoAP read/write mapping).
Real code: ip/pairing.py format_characteristic_list + IpPairing.put_characteristics, statuscodes.to_status_code,
coap/connection.py _read/_write_characteristics_exit, coap/pairing.py CoAPPairing.put_characteristics."""
import asyncio

import aiohomekit.controller.ble.pairing as real_blep
import aiohomekit.controller.coap.connection as real_cconn
import aiohomekit.controller.coap.pairing as real_cpair
import aiohomekit.controller.ip.pairing as real_ip
import aiohomekit.protocol.statuscodes as real_sc

from symx import Unit, check_property, decide, drive, load, run_canaries
from symx.core import SymInt

from . import common

PROP = "C13"
SC, IP, CCONN, CPAIR, BLEP = ("aiohomekit.protocol.statuscodes", "aiohomekit.controller.ip.pairing",
                              "aiohomekit.controller.coap.connection", "aiohomekit.controller.coap.pairing",
                              "aiohomekit.controller.ble.pairing")
DEFINED = [m.value for m in real_sc.HapStatusCode if m.value not in (0, -1)]


class Mods:
    pass


def copies(mutate=None):
    mutate = mutate or {}
    m = Mods()
    m.sc = load(SC, src_transform=mutate.get(SC))
    m.ip = load(IP, deps={SC: m.sc}, src_transform=mutate.get(IP))
    m.cconn = load(CCONN, src_transform=mutate.get(CCONN))
    m.cpair = load(CPAIR, deps={SC: m.sc}, src_transform=mutate.get(CPAIR))
    m.blep = load(BLEP, deps={SC: m.sc}, src_transform=mutate.get(BLEP))
    return m


def reals():
    m = Mods()
    m.sc, m.ip, m.cconn, m.cpair, m.blep = real_sc, real_ip, real_cconn, real_cpair, real_blep
    return m


def expected_description(ex, status):
    """table text for the defined codes of either sign, 'Unknown error code: n' otherwise (None = not checkable symbolically)"""
    for d in DEFINED:
        if decide(status == d) or decide(status == -d):
            return real_sc.HapStatusCode(d).description
    if decide(status == 1) or decide(status == -1):
        return "Unknown error code: %s" % (status if isinstance(status, int) else "<sym>")
    return "Unknown error code: %s" % (status if isinstance(status, int) else "<sym>")


# ------------------------------------------------------------------ IP read
REQ = [(1, 10), (1, 11), (2, 10)]
SHAPES = ["all-listed", "one-missing", "malformed+idless", "duplicate", "no-list", "only-unrequested"]


CONCRETE_STATUSES = [0, -70402, 70410, 12345]


def ip_read(M, mode):
    """mode 'global': the request-wide status is an arbitrary int, item statuses from a small concrete set;
    mode 'item': the status of one listed item (symbolic focus) is an arbitrary int, request-wide status absent/0/-70402"""
    def h(ex):
        shape = ex.choice("shape", SHAPES)
        if mode == "global":
            has_global = True
            g = ex.fresh_int("global_status", -100000, 100000)
            rot = ex.choice("rot", [0, 1, 2, 3])
            s = [CONCRETE_STATUSES[(i + rot) % 4] for i in range(3)]
        else:
            gsel = ex.choice("global", ["absent", 0, -70402])
            has_global = gsel != "absent"
            g = 0 if gsel == "absent" else gsel
            focus = ex.fresh_int("focus", 0, 2)
            sv = ex.fresh_int("status", -100000, 100000)
            s = [sv if decide(focus == i) else [0, -70402, 70410][i] for i in range(3)]
        kind = [ex.choice("kind%d" % i, ["value", "status"]) for i in range(2)] + ["status"]

        def entry(i, aid, iid):
            e = {"aid": aid, "iid": iid}
            if kind[i] == "value":
                e["value"] = 40 + i
            else:
                e["status"] = s[i]
                if not isinstance(s[i], SymInt) and s[i] == 0:
                    e["value"] = 40 + i  # a success entry that also carries an explicit status 0
            return e

        listed = {}
        entries = []
        if shape == "all-listed":
            for i, k in enumerate(REQ):
                entries.append(entry(i, *k))
                listed[k] = i
        elif shape == "one-missing":
            for i, k in enumerate(REQ[:2]):
                entries.append(entry(i, *k))
                listed[k] = i
        elif shape == "malformed+idless":
            entries = [True, entry(0, *REQ[0]), {"iid": 11, "status": s[1]}, None, {"aid": 2, "value": 1}, 17]
            listed[REQ[0]] = 0
        elif shape == "duplicate":
            entries = [entry(0, *REQ[0]), entry(1, *REQ[1]), entry(1, *REQ[1])]
            listed[REQ[0]] = 0
            listed[REQ[1]] = 1
        elif shape == "only-unrequested":
            entries = [{"aid": 9, "iid": 9, "value": 1}]
        data = {}
        if has_global:
            data["status"] = g
        if shape != "no-list":
            data["characteristics"] = entries
        out = M.ip.format_characteristic_list(data, set(REQ))
        gerr = has_global and decide(g != 0)
        obs = {}
        for k in REQ:
            r = out.get(k)
            if k in listed:
                i = listed[k]
                if kind[i] != "status" or decide(s[i] == 0):
                    ex.tag("listed-ok")
                    want = {"value": 40 + i} if (kind[i] != "status" or not isinstance(s[i], SymInt)) else {}
                    ex.require(r == want, "read: a listed characteristic without error reports its value and no status")
                    obs[str(k)] = "value" if kind[i] != "status" else "empty"
                else:
                    ex.tag("listed-error")
                    ok = r is not None and "status" in r and "value" not in r
                    ex.require(ok, "read: a listed characteristic with an error reports a status")
                    if ok:
                        ex.require(r["status"] == s[i], "read: the accessory's status is reported unchanged")
                        d = expected_description(ex, s[i])
                        if "<sym>" not in d:
                            ex.require(r.get("description") == d, "read: description of the status code (either sign)")
                    obs[str(k)] = "status"
            else:
                if gerr:
                    ex.tag("global-applied")
                    ok = r is not None and "status" in r
                    ex.require(ok, "read: a request-wide error is applied to every requested characteristic the reply does not mention")
                    if ok:
                        ex.require(r["status"] == g, "read: the request-wide status is reported unchanged")
                        d = expected_description(ex, g)
                        if "<sym>" not in d:
                            ex.require(r.get("description") == d, "read: description of the request-wide status")
                    obs[str(k)] = "global"
                else:
                    ex.require(r is None, "read: an unmentioned characteristic is not reported when there is no request-wide error")
                    obs[str(k)] = "absent"
        return ex.observe(obs)
    return h


# ------------------------------------------------------------------ IP write
PERMS = {10: ["pr", "pw"], 11: ["pw"], 12: ["pr", "pw", "tw"], 13: ["pr", "pw", "ev"]}


class CharStub:
    def __init__(self, iid, perms):
        self.iid, self.perms = iid, perms


class CharsStub:
    def iid(self, iid):
        return CharStub(iid, PERMS[iid])


class AccStub:
    characteristics = CharsStub()


class AccessoriesStub:
    def aid(self, aid):
        return AccStub()

    def __bool__(self):
        return True


class StateStub:
    accessories = AccessoriesStub()


WRITES = [(1, 10, True), (1, 11, 50), (2, 12, 7), (2, 13, 3)]
WSHAPES = ["204", "all-listed", "failures-only", "malformed+idless", "duplicate", "reordered", "request-wide-status-only"]


def ip_write(M):
    """one item's status (symbolic focus) is an arbitrary int, the others 0 or -70402 by selector"""
    def h(ex):
        shape = ex.choice("shape", WSHAPES)
        focus = ex.fresh_int("focus", 0, 3)
        sv = ex.fresh_int("status", -100000, 100000)
        s = [sv if decide(focus == i) else ex.choice("status%d" % i, [0, -70402]) for i in range(4)]
        listed = {}
        if shape == "204":
            reply = {}
        elif shape == "request-wide-status-only":
            reply = {"status": sv}  # the write is refused as a whole: a body with a status and no list (e.g. HTTP 500/503/207)
        else:
            def e(i):
                listed[(WRITES[i][0], WRITES[i][1])] = i
                return {"aid": WRITES[i][0], "iid": WRITES[i][1], "status": s[i]}
            if shape == "all-listed":
                ents = [e(0), e(1), e(2), e(3)]
            elif shape == "failures-only":
                ents = [e(1), e(3)]
            elif shape == "malformed+idless":
                ents = [True, e(0), {"iid": 11, "status": s[1]}, None, e(2), 5]
            elif shape == "duplicate":
                ents = [e(0), e(0), e(3)]
            else:
                ents = [e(3), e(1), e(0)]
            reply = {"characteristics": ents}
        p = object.__new__(M.ip.IpPairing)
        p._accessories_state = StateStub()
        calls = []
        p.listeners = {calls.append}

        async def ens():
            return None

        class Conn:
            async def put_json(self, target, body):
                return reply

        p._ensure_connected = ens
        p.connection = Conn()
        if shape == "request-wide-status-only":
            ex.assume(sv != 0)
            ex.tag("refused-as-a-whole")
            try:
                res = drive(p.put_characteristics(list(WRITES)))
            except Exception:
                ex.require(not calls, "write refused as a whole: listeners are told nothing when the call fails")
                return ex.observe("the call fails")
            ex.require(all(k[:2] in res and res[k[:2]].get("status") not in (0, None) for k in [(w[0], w[1]) for w in WRITES]) and not calls,
                       "write refused as a whole: every characteristic is reported with a non-zero status (or the call fails), listeners are told nothing")
            return ex.observe("reported")
        res = drive(p.put_characteristics(list(WRITES)))
        notified = {}
        for c in calls:
            notified.update(c)
        ex.require(len(calls) <= 1, "write: listeners are notified at most once per call")
        obs = {}
        for i, (aid, iid, value) in enumerate(WRITES):
            k = (aid, iid)
            readable = "pr" in PERMS[iid]
            if k in listed:
                rejected = decide(s[i] != 0)
                r = res.get(k)
                ok = r is not None and "status" in r
                ex.require(ok, "write: every characteristic the reply lists is reported")
                if ok:
                    ex.require(r["status"] == s[i], "write: the accessory's status is reported unchanged")
            else:
                rejected = False
                ex.require(k not in res, "write: no status is invented for a characteristic the accessory did not mention")
            if rejected:
                ex.tag("rejected")
                ex.require(k not in notified, "write: listeners are not told a rejected value was written")
            elif readable:
                ex.tag("accepted-readable")
                ex.require(k in notified and notified[k] == {"value": value}, "write: listeners are told the new value of every accepted readable characteristic")
            else:
                ex.require(k not in notified, "write: no notification for a characteristic that is not readable")
            obs[str(k)] = ["rejected" if rejected else "accepted", k in notified]
        return ex.observe(obs)
    return h


# ------------------------------------------------------------------ CoAP
def coap_units(M):
    S = None

    def statuses(M):
        return [m for m in M.cconn.PDUStatus if m.value != 0]

    def read_exit(ex):
        ids = [(1, 10), (1, 11), (1, 12)]
        conn = object.__new__(M.cconn.CoAPHomeKitConnection)

        class Info:
            def find_characteristic_by_iid(self, iid):
                return None

        conn.info = Info()
        results = []
        kinds = []
        for i in range(3):
            k = ex.choice("r%d" % i, ["empty-body"] + [m.name for m in statuses(M)])
            kinds.append(k)
            results.append(b"" if k == "empty-body" else M.cconn.PDUStatus[k])
        out = conn._read_characteristics_exit(ids, results)
        for i, k in enumerate(ids):
            r = out.get(k)
            if kinds[i] == "empty-body":
                ex.require(r == {"value": b""}, "coap-read: i-th result belongs to the i-th requested characteristic (value)")
            else:
                ex.tag("coap-error")
                ex.require(r is not None and r.get("status") == -M.cconn.PDUStatus[kinds[i]].value and r["status"] != 0,
                           "coap-read: i-th failure is reported for the i-th characteristic with a non-zero status")
        return ex.observe(kinds)

    def read_whole(ex):
        """read_characteristics end to end against an accessory that answers per instance id: what is asked, in which order, and
        which answer lands on which (aid, iid) - also when some of the requested characteristics are not readable"""
        ids = [(1, 10), (1, 11), (1, 12)]
        readable = [ex.fresh_bool("readable%d" % i) for i in range(3)]
        empty = [ex.fresh_bool("empty_value%d" % i) for i in range(3)]  # a readable characteristic may answer with an empty body
        conn = object.__new__(M.cconn.CoAPHomeKitConnection)

        class Ch:
            def __init__(self, iid, ok):
                self.iid, self.supports_secure_reads = iid, ok

            @property
            def value(self):
                return ("decoded", self.iid, bytes(self.raw_value))

        chars = {iid: Ch(iid, readable[i]) for i, (aid, iid) in enumerate(ids)}

        class Info:
            def find_characteristic_by_iid(self, iid):
                return chars.get(iid)

        asked = []

        class Enc:
            async def post_all(self, opcode, iids, data):
                asked.append(list(iids))
                # the accessory: a value TLV (type 1) naming the instance id, or Invalid Request for a characteristic it cannot read
                return [(b"" if empty[[k[1] for k in ids].index(iid)] else bytes([1, 1, iid])) if chars[iid].supports_secure_reads
                        else M.cconn.PDUStatus.INVALID_REQUEST for iid in iids]

        conn.info, conn.enc_ctx = Info(), Enc()
        out = drive(conn.read_characteristics(list(ids)))
        for i, k in enumerate(ids):
            r = out.get(k)
            if readable[i]:
                ex.tag("coap-read-value")
                want = {"value": b""} if empty[i] else {"value": ("decoded", k[1], bytes([k[1]]))}
                ex.require(r == want, "coap-read: a readable characteristic gets the value the accessory sent for that instance id (an empty body is an empty value, not another one's)")
            else:
                ex.tag("coap-read-refused")
                ex.require(r is not None and r.get("status") not in (0, None) and "value" not in r,
                           "coap-read: a characteristic the accessory refuses to read is reported with its error status, not with another one's value")
        return ex.observe([readable, asked])

    def put(ex):
        writes = [(1, 10, True), (1, 11, 50), (1, 12, 7)]
        kinds = [ex.choice("r%d" % i, ["ok"] + [m.name for m in statuses(M)]) for i in range(3)]
        pdu_results = [b"" if k == "ok" else M.cconn.PDUStatus[k] for k in kinds]
        conn = object.__new__(M.cconn.CoAPHomeKitConnection)

        async def write_characteristics(ids_values):
            return conn._write_characteristics_exit(list(ids_values), pdu_results)

        conn.write_characteristics = write_characteristics
        p = object.__new__(M.cpair.CoAPPairing)
        p._accessories_state = StateStub()
        p.connection = conn
        calls = []
        p.listeners = {calls.append}

        async def ens():
            return None

        p._ensure_connected = ens
        res = drive(p.put_characteristics(list(writes)))
        notified = {}
        for c in calls:
            notified.update(c)
        for i, (aid, iid, value) in enumerate(writes):
            k = (aid, iid)
            if kinds[i] == "ok":
                ex.require(k not in res, "coap-write: an accepted characteristic is not reported with a status")
                if "pr" in PERMS[iid]:
                    ex.tag("accepted-readable")
                    ex.require(notified.get(k) == {"value": value}, "coap-write: listeners are told the new value of accepted readable characteristics")
                else:
                    ex.require(k not in notified, "coap-write: no notification for a characteristic that is not readable")
            else:
                ex.tag("rejected")
                r = res.get(k)
                ex.require(r is not None and r.get("status") not in (0, None), "coap-write: a rejected characteristic is reported with a non-zero status")
                ex.require(k not in notified, "coap-write: listeners are not told a rejected value was written")
        return ex.observe(kinds)

    return read_exit, put, read_whole


# ------------------------------------------------------------------ BLE
BLE_PERMS = {"rw": ["pr", "pw"], "w": ["pw"], "r": ["pr"], "rwt": ["pr", "pw", "tw"], "rw-ev": ["pr", "pw", "ev"]}


class BleChar:
    def __init__(self, iid, perms):
        self.iid, self.perms, self.format = iid, perms, "uint8"


def ble_put(M):
    """BlePairing.put_characteristics (full decorator stack): per-write outcome success / each PDU error status; permissions by selector"""
    def h(ex):
        n = 3
        kinds = [ex.choice("perm%d" % i, list(BLE_PERMS)) for i in range(n)]
        outcomes = [ex.choice("outcome%d" % i, ["ok", 2, 6]) for i in range(n)]
        chars = {10 + i: BleChar(10 + i, BLE_PERMS[kinds[i]]) for i in range(n)}
        writes = [(1, 10 + i, 5 + i) for i in range(n)]
        p = object.__new__(M.blep.BlePairing)
        p._shutdown = False
        p._restore_pending = False
        p._operation_lock = asyncio.Lock()
        p._ble_request_lock = asyncio.Lock()
        p.description = None
        p.device = None
        p.ble_advertisement = None
        p.pairing_data = {"AccessoryAddress": "aa", "iOSPairingId": "me", "AccessoryPairingID": "xx"}
        p.id = "x"
        p.client = None

        class Chars:
            def iid(self, iid):
                return chars[iid]

        class Acc:
            characteristics = Chars()

        class Accs:
            def aid(self, a):
                return Acc()

            def __bool__(self):
                return True

        class St:
            accessories = Accs()

        p._accessories_state = St()
        calls = []
        p.listeners = {calls.append}
        sent = []

        async def nothing(*a, **k):
            return None

        p._populate_accessories_and_characteristics = nothing
        PDUStatusError = M.blep.PDUStatusError if hasattr(M.blep, "PDUStatusError") else __import__("aiohomekit.controller.ble.client", fromlist=["PDUStatusError"]).PDUStatusError

        async def request(opcode, char, data=None, iid=None):
            i = char.iid - 10
            sent.append((char.iid, opcode.name))
            if outcomes[i] != "ok":
                raise PDUStatusError(outcomes[i], "PDU status was not success")
            return b""

        p._async_request_under_lock = request
        try:
            res = drive(p.put_characteristics(list(writes)))
            failed_at = None
        except PDUStatusError:
            res = None
            failed_at = len({iid for iid, _ in sent}) - 1  # index among contacted characteristics
        notified = {}
        for c in calls:
            notified.update(c)
        # reference: walk the batch in order
        stop = False
        for i, (aid, iid, value) in enumerate(writes):
            k = (aid, iid)
            perms = BLE_PERMS[kinds[i]]
            writable = "pw" in perms or "tw" in perms
            if stop:
                ex.require(k not in notified, "ble-write: nothing is announced for characteristics after the failing write")
                continue
            if not writable:
                ex.tag("not-writable")
                ex.require(k not in notified, "ble-write: a characteristic that was not written is not announced")
                if res is not None:
                    r = res.get(k)
                    ex.require(r is not None and r.get("status") not in (0, None) and getattr(r.get("status"), "value", r.get("status")) != 0,
                               "ble-write: a characteristic that cannot be written is reported with a non-zero status")
                continue
            if outcomes[i] != "ok":
                ex.tag("rejected")
                stop = True
                ex.require(res is None, "ble-write: a rejected write makes the call fail (or is reported with a non-zero status)")
                ex.require(k not in notified, "ble-write: listeners are not told a rejected value was written")
                continue
            # accepted by the accessory
            if res is not None:
                ex.require(k not in res or res[k].get("status") in (0, None), "ble-write: an accepted characteristic is not reported with a non-zero status")
            if "pr" in perms:
                ex.tag("accepted-readable")
                ex.require(notified.get(k) == {"value": value}, "ble-write: listeners are told the new value of every accepted readable characteristic")
            else:
                ex.require(k not in notified, "ble-write: no notification for a characteristic that is not readable")
        return ex.observe([kinds, [str(o) for o in outcomes], res is None, sorted(str(k) for k in notified)])
    return h


def build(tier, mutate=None):
    C = copies(mutate)
    R = reals()
    units = []
    for mode in ("global", "item"):
        units.append(Unit("ip-read/format_characteristic_list/%s-status-symbolic" % mode, ip_read(C, mode), ip_read(R, mode), split=True,
                          bounds={"requested": REQ, "reply_shapes": SHAPES,
                                  "statuses": "request-wide status every int in -100000..100000, item statuses in %s" % CONCRETE_STATUSES if mode == "global"
                                  else "one item's status (any position) every int in -100000..100000; request-wide status absent/0/-70402"},
                          regions=["listed-ok", "listed-error", "global-applied"]))
    units.append(Unit("ip-write/put_characteristics", ip_write(C), ip_write(R), split=True,
                      bounds={"writes": [list(w[:2]) for w in WRITES], "reply_shapes": WSHAPES, "statuses": "one item's status (any position) every int in -100000..100000, the others 0 or -70402"},
                      regions=["rejected", "accepted-readable"]))
    cr, cp, cw = coap_units(C)
    rr, rp, rw = coap_units(R)
    units.append(Unit("coap-read/read_characteristics", cw, rw, bounds={"items": 3, "readable": "every subset"}, regions=["coap-read-value", "coap-read-refused"]))
    units.append(Unit("coap-read/_read_characteristics_exit", cr, rr, bounds={"items": 3, "result": "empty body or each PDUStatus error"}, regions=["coap-error"]))
    units.append(Unit("coap-write/put_characteristics", cp, rp, bounds={"items": 3, "result": "ok or each PDUStatus error"}, regions=["rejected", "accepted-readable"]))
    if tier != "canary":
        # which answer of a CoAP batch reply belongs to which request: the PDU codec under the read/write paths (units of C17)
        from . import c17
        C17, R17 = c17.copies(mutate), c17.reals()
        units.append(Unit("coap-batch/decode_all_pdus/k=2 (unit of C17)", c17.coap_decode(C17, 2, 300, None), c17.coap_decode(R17, 2, 300, None),
                          bounds={"items": 2, "control/tid": "0..255", "status": "0..6", "body_len": "0..300"}, regions=["item-ok", "item-error"]))
        units.append(Unit("coap-batch/pipeline/write_characteristics/k=3 (unit of C17)", c17.coap_pipeline(C17, "write_characteristics", 3), c17.coap_pipeline(R17, "write_characteristics", 3),
                          bounds={"items": 3, "per-item outcome": c17.ITEM_OUTCOMES}, regions=["item-ok", "item-error"]))
    units.append(Unit("ble-write/put_characteristics", ble_put(C), ble_put(R), split=True,
                      bounds={"writes": 3, "permissions": list(BLE_PERMS), "outcome per write": "ok or PDU status 2 / 6"},
                      regions=["rejected", "accepted-readable", "not-writable"]))
    return units


CANARIES = [
    ("global status not applied", {IP: lambda s: s.replace("        if requested_characteristics:\n            for aid, iid in requested_characteristics:", "        if False:\n            for aid, iid in requested_characteristics:")}, lambda n: n.startswith("ip-read")),
    ("status sign not normalised", {SC: lambda s: s.replace("normalized = abs(status_code) * -1", "normalized = status_code")}, lambda n: n.startswith("ip-read")),
    ("listener told about rejected write", {IP: lambda s: s.replace("                    listener_update.pop(key, None)", "                    pass")}, lambda n: n.startswith("ip-write")),
    ("coap listener ignores failures", {CPAIR: lambda s: s.replace("response_status.get((aid, iid), HapStatusCode.SUCCESS) == HapStatusCode.SUCCESS", "True")}, lambda n: n.startswith("coap-write")),
]

ASSUMPTIONS = [
    "statuses (request-wide and per item) are solver variables over -100000..100000 (covers 0, every defined code of either sign, unknown codes); reply shapes are selectors over a fixed list (well-formed, partial, duplicated, non-dict, id-less entries)",
    "a 207 entry that has ids but no status key is outside (the quantifier lists missing, duplicated, non-dict and id-less entries only)",
    "pairing objects built with object.__new__; connection.put_json / write_characteristics and _ensure_connected are stubs; accessories are stubs exposing perms; characteristic ids concrete",
    "the text 'Unknown error code: n' for undefined codes is only compared on the real library (formatting a symbolic int is not modelled)",
    "BLE put_characteristics runs with its full decorator stack on an object.__new__ pairing; _async_request_under_lock is a scripted stub raising PDUStatusError",
]


def main(tier, seed, only=None):
    units = common.filter_units(build(tier), only)
    can = None
    if tier == "thorough" and only is None:
        can = lambda: run_canaries(lambda mut: build("canary", mut), CANARIES, seed)
    return check_property(
        PROP, units, tier, seed,
        explanation="format_characteristic_list, to_status_code, IpPairing.put_characteristics (hand-driven coroutine), the CoAP result "
                    "mappers and CoAPPairing.put_characteristics run symbolically with every status an arbitrary integer and the reply "
                    "shape a selector; z3 discharges the per-id outcome table and 'listeners == accepted and readable'.",
        assumptions=ASSUMPTIONS, stubs=["connection.put_json", "_ensure_connected", "accessories -> perms stubs", "logger -> no-op"],
        bounds={"tier": tier}, canaries=can, design_ref="DESIGN.md section 5, C13")


def replay(doc):
    return common.std_replay(PROP, build("thorough"), doc)
