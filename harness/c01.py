"""C01 - pair-verify yields session keys only for the authentic paired accessory; both ends hold identical keys.
Real code: protocol/__init__.py get_session_keys / resume_m1 / resume_m3 / handle_state_step, TLV codec, and the key
installation of the three transports (ip/connection.py, ble/pairing.py, coap/connection.py)."""
import asyncio

import aiohomekit.controller.ble.key as real_blekey
import aiohomekit.controller.ble.pairing as real_blep
import aiohomekit.controller.coap.connection as real_coap
import aiohomekit.controller.ip.connection as real_ipc
import aiohomekit.protocol as real_proto
import aiohomekit.protocol.tlv as real_tlv

from symx import Unit, as_rope, check_property, decide, drive, load, rope_eq, run_canaries, slen
from symx.ideal import World, ideal_aead_class
from symx.rope import SymBytes

from . import common, hap
from .refs import byte, rope, tlv8_encode

PROP = "C01"
TLVM, PROTO, IPC, BLEP, BLEKEY, COAP = ("aiohomekit.protocol.tlv", "aiohomekit.protocol", "aiohomekit.controller.ip.connection",
                                        "aiohomekit.controller.ble.pairing", "aiohomekit.controller.ble.key",
                                        "aiohomekit.controller.coap.connection")
T_METHOD, T_ID, T_SALT, T_PUBKEY, T_PROOF, T_ENC, T_STATE, T_ERROR, T_SIG, T_SESSION = 0, 1, 2, 3, 4, 5, 6, 7, 10, 14


class Mods:
    pass


def copies(mutate=None):
    mutate = mutate or {}
    m = Mods()
    m.tlv = load(TLVM, src_transform=mutate.get(TLVM))
    common.keep_tlv_to_string(m.tlv)
    m.proto = hap.patch_protocol_copy(load(PROTO, deps={TLVM: m.tlv}, src_transform=mutate.get(PROTO)))
    m.ipc = load(IPC, deps={TLVM: m.tlv, PROTO: m.proto}, src_transform=mutate.get(IPC))
    m.blekey = load(BLEKEY, src_transform=mutate.get(BLEKEY))
    m.blep = load(BLEP, deps={TLVM: m.tlv, PROTO: m.proto, BLEKEY: m.blekey}, src_transform=mutate.get(BLEP))
    m.coap = load(COAP, deps={TLVM: m.tlv, PROTO: m.proto}, src_transform=mutate.get(COAP))
    return m


def reals():
    m = Mods()
    m.tlv, m.proto, m.ipc, m.blep, m.blekey, m.coap = real_tlv, real_proto, real_ipc, real_blep, real_blekey, real_coap
    return m


def send(M, be, gen, fields, expected):
    body = tlv8_encode(fields)
    return gen.send(M.tlv.TLV.decode_bytes(body if be.sym else bytes(body.concrete()), expected=expected))


def eq(be, a, b):
    return rope_eq(a, b) if be.sym else bytes(a) == bytes(b)


class Accessory:
    """spec-conformant accessory side of pair-verify (HAP 5.7), on either backend"""

    def __init__(self, be, eph="eA", lt="A", ident=hap.ACC_ID):
        self.be, self.eph, self.lt, self.ident = be, eph, lt, ident

    def m2(self, ios_pub):
        be = self.be
        self.ios_pub = ios_pub
        self.pub = be.eph_pub(self.eph)
        self.shared = be.dh(self.eph, ios_pub)
        self.session_key = be.hkdf(self.shared, b"Pair-Verify-Encrypt-Salt", b"Pair-Verify-Encrypt-Info")
        self.sig = be.sign(self.lt, hap.cat(be, self.pub, self.ident.encode(), ios_pub))
        sub = tlv8_encode([(T_ID, self.ident.encode()), (T_SIG, self.sig)])
        self.enc = be.encrypt(self.session_key, b"PV-Msg02", be.b(sub))
        return self.pub, self.enc

    def accepts_m3(self, M, req):
        """decrypt PV-Msg03 with the session key, verify the controller's signature over iosPK|iosId|accPK"""
        be = self.be
        d = dict(req)
        if T_ENC not in d:
            return False
        pt = be.decrypt(self.session_key, b"PV-Msg03", d[T_ENC])
        if pt is None:
            return False
        sub = dict(M.tlv.TLV.decode_bytes(pt))
        if T_ID not in sub or T_SIG not in sub:
            return False
        if not eq(be, sub[T_ID], hap.IOS_ID.encode()):
            return False
        return be.verify("C", sub[T_SIG], hap.cat(be, self.ios_pub, hap.IOS_ID.encode(), self.pub))

    def key(self, salt, info, length=32):
        return self.be.hkdf(self.shared, salt, info, length)


PK = ["honest", "adversary", "foreign", "arbitrary32", "short31", "absent", "honest+one-more-byte", "honest-twice"]
CT = ["honest", "absent", "arbitrary", "truncated", "other-exchange", "adversary-encrypted", "paired-key-other-identifier"]
BOUND_IDS = ["prefix", "suffix", "empty", "other", "longer", "lower-case"]
IDS = ["stored", "other", "arbitrary"]
SIGS = ["relayed-genuine", "other-exchange", "permuted", "other-id", "other-ltsk", "arbitrary", "absent"]
ORDER = ["id,sig", "sig,id", "id,id,sig", "id,sig,extra"]


def verify_full(M):
    def h(ex):
        be = hap.backend(ex, M.proto)
        gen = M.proto.get_session_keys(hap.pairing_data())
        req, expected = gen.send(None)
        ios_pub = dict(req)[T_PUBKEY]
        ex.require(bytes(dict(req)[T_STATE]) == b"\x01" if not be.sym else rope_eq(dict(req)[T_STATE], b"\x01"), "M1 carries state 1 and the controller's fresh public key")
        acc = Accessory(be)
        pub, enc = acc.m2(ios_pub)
        pk_sel = ex.choice("pk", PK)
        ct_sel = ex.choice("ct", CT)
        # ---- public key field
        if pk_sel == "honest":
            pk = pub
        elif pk_sel == "adversary":
            pk = be.eph_pub("eX")
        elif pk_sel == "foreign":
            pk = be.eph_pub("eA2")
        elif pk_sel == "arbitrary32":
            for nm in ("eX", "eA2", "eC2"):
                be.eph_pub(nm)
            pk = be.arbitrary("pk", 32, avoid=be.known_values(("xpub",)))
        elif pk_sel == "short31":
            pk = be.arbitrary("pk31", 31)
        elif pk_sel == "honest+one-more-byte":
            pk = rope(pub, be.arbitrary("pkextra", 1)) if be.sym else bytes(pub) + bytes(be.arbitrary("pkextra", 1))  # appended in transit
        elif pk_sel == "honest-twice":
            pk = rope(pub, pub) if be.sym else bytes(pub) * 2  # e.g. a second adjacent PublicKey item that the decoder joins
        else:
            pk = None
        # ---- encrypted data field
        if ct_sel == "honest":
            ct = enc
        elif ct_sel == "absent":
            ct = None
        elif ct_sel == "arbitrary":
            ct = be.arbitrary("ct", 93, avoid=be.known_values(("aead",)))
        elif ct_sel == "truncated":
            ct = as_rope(enc).slice(0, slen(enc) - 1) if be.sym else bytes(enc)[:-1]
        elif ct_sel == "other-exchange":
            # a reply this accessory produced in another exchange (other controller ephemeral key)
            other = Accessory(be, eph="eA2")
            _, ct = other.m2(be.eph_pub("eC2"))
        elif ct_sel == "paired-key-other-identifier":
            # the right long-term key, the right session key - but the proof is bound to another identifier
            v = ex.choice("bound_id", BOUND_IDS)
            ident = {"prefix": hap.ACC_ID[:-1], "suffix": hap.ACC_ID[1:], "empty": "", "other": hap.OTHER_ID, "longer": hap.ACC_ID + ":DD",
                     "lower-case": hap.ACC_ID.lower()}[v].encode()
            sig = be.sign("A", hap.cat(be, pub, ident, ios_pub))
            ct = be.encrypt(acc.session_key, b"PV-Msg02", be.b(tlv8_encode([(T_ID, ident), (T_SIG, sig)])))
        else:
            # the adversary knows its own ephemeral secret eX: it can derive K(eX, iosPK) and encrypt anything it can build
            k_adv = be.hkdf(be.dh("eX", ios_pub), b"Pair-Verify-Encrypt-Salt", b"Pair-Verify-Encrypt-Info")
            id_sel, sig_sel, order = ex.choice("inner_id", IDS), ex.choice("inner_sig", SIGS), ex.choice("inner_order", ORDER)
            ident = hap.ACC_ID.encode() if id_sel == "stored" else hap.OTHER_ID.encode() if id_sel == "other" else be.arbitrary("id", 8)
            xpub = be.eph_pub("eX")
            if sig_sel == "relayed-genuine":
                sig = acc.sig
            elif sig_sel == "other-exchange":
                sig = be.sign("A", hap.cat(be, be.eph_pub("eA2"), hap.ACC_ID.encode(), be.eph_pub("eC2")))
            elif sig_sel == "permuted":
                sig = be.sign("A", hap.cat(be, ios_pub, hap.ACC_ID.encode(), xpub))
            elif sig_sel == "other-id":
                sig = be.sign("A", hap.cat(be, xpub, hap.OTHER_ID.encode(), ios_pub))
            elif sig_sel == "other-ltsk":
                sig = be.sign("B", hap.cat(be, xpub, hap.ACC_ID.encode(), ios_pub))
            elif sig_sel == "arbitrary":
                sig = be.arbitrary("sig", 64, avoid=be.known_values(("sig",)))
            else:
                sig = None
            items = [(T_ID, ident)] + ([(T_SIG, sig)] if sig is not None else [])
            if order == "sig,id":
                items.reverse()
            elif order == "id,id,sig":
                items.insert(1, (255, b""))
                items.insert(2, (T_ID, hap.ACC_ID.encode()))
            elif order == "id,sig,extra":
                items.append((T_METHOD, b"\x00"))
            ct = be.encrypt(k_adv, b"PV-Msg02", be.b(tlv8_encode(items)))
        m2_state = ex.choice("m2_state", ["2", "2-then-another-byte"]) if (pk_sel, ct_sel) == ("honest", "honest") else "2"
        fields = [(T_STATE, b"\x02" if m2_state == "2" else b"\x02\x00")] + ([(T_PUBKEY, pk)] if pk is not None else []) + ([(T_ENC, ct)] if ct is not None else [])
        genuine = m2_state == "2" and pk is not None and ct is not None and decide(eq(be, pk, pub)) and decide(eq(be, ct, enc))
        try:
            req, expected = send(M, be, gen, fields, expected)
        except StopIteration:
            ex.require(False, "no keys are handed out on M2")
            return ex.observe("keys-at-M2")
        except Exception as e:
            ex.tag("rejected")
            ex.require(not genuine, "the authentic accessory's reply is accepted")
            return ex.observe("rejected")
        ex.require(genuine, "a reply that is forged, altered, truncated, re-bound or replayed makes the attempt fail")
        if not genuine:
            return ex.observe("ACCEPTED-FORGERY")
        ex.tag("accepted")
        ex.require(acc.accepts_m3(M, req), "the accessory accepts the controller's proof (PV-Msg03, signature over iosPK|iosId|accPK)")
        m4 = ex.choice("m4", M4S)
        m4_fields = {"state4": [(T_STATE, b"\x04")], "state4+error": [(T_STATE, b"\x04"), (T_ERROR, be.arbitrary("m4err", 1))],
                     "state4+empty-error": [(T_STATE, b"\x04"), (T_ERROR, b"")], "error-only": [(T_ERROR, b"\x02")],
                     "wrong-state": [(T_STATE, b"\x02")], "empty-state": [(T_STATE, b"")],
                     # a State value that merely starts with the expected step (the decoder joins adjacent items of one type)
                     "state4-then-another-byte": [(T_STATE, rope(b"\x04", be.arbitrary("m4extra", 1)))],
                     "state-item-twice": [(T_STATE, b"\x04\x04")]}[m4]
        if m4 != "state4":
            # the accessory did not accept (or the reply is out of sequence): with the transport's filter and without it (BLE)
            flt = expected if ex.choice("m4_filter", ["transport-filter", "unfiltered"]) == "transport-filter" else None
            try:
                send(M, be, gen, m4_fields, flt)
            except StopIteration:
                ex.require(False, "an M4 that reports an error or a wrong step yields no keys (%s)" % m4)
                return ex.observe("keys-after-rejection")
            except Exception:
                ex.tag("m4-rejected")
                return ex.observe("m4-rejected")
            ex.require(False, "M4 ends the exchange")
            return ex.observe("no-stop")
        try:
            send(M, be, gen, m4_fields, expected)
            ex.require(False, "M4 ends the exchange")
            return ex.observe("no-stop")
        except StopIteration as r:
            session_id, derive = r.value
        for salt, info in ((b"Control-Salt", b"Control-Write-Encryption-Key"), (b"Control-Salt", b"Control-Read-Encryption-Key"),
                           (b"Event-Salt", b"Event-Read-Encryption-Key")):
            ex.require(eq(be, derive(salt, info), acc.key(salt, info)), "both ends derive identical %s" % info.decode())
        ex.require(eq(be, session_id, acc.key(b"Pair-Verify-ResumeSessionID-Salt", b"Pair-Verify-ResumeSessionID-Info", 8)),
                   "resumable session id is the one the accessory derives")
        return ex.observe("accepted")
    return h


M4S = ["state4", "state4+error", "state4+empty-error", "error-only", "wrong-state", "empty-state", "state4-then-another-byte", "state-item-twice"]


def two_exchanges(M):
    """every exchange uses a fresh controller key, so a reply recorded in one exchange is useless in the next"""
    def h(ex):
        be = hap.backend(ex, M.proto)
        gen1 = M.proto.get_session_keys(hap.pairing_data())
        req1, expected = gen1.send(None)
        pub1 = dict(req1)[T_PUBKEY]
        acc = Accessory(be)
        pub, enc = acc.m2(pub1)
        req3, expected3 = send(M, be, gen1, [(T_STATE, b"\x02"), (T_PUBKEY, pub), (T_ENC, enc)], expected)
        ex.require(acc.accepts_m3(M, req3), "first exchange: the accessory accepts the controller's proof")
        try:
            send(M, be, gen1, [(T_STATE, b"\x04")], expected3)
        except StopIteration:
            pass
        gen2 = M.proto.get_session_keys(hap.pairing_data())
        req2, expected = gen2.send(None)
        pub2 = dict(req2)[T_PUBKEY]
        ex.require(not decide(eq(be, pub1, pub2)), "the controller's exchange key is fresh in every exchange")
        try:
            send(M, be, gen2, [(T_STATE, b"\x02"), (T_PUBKEY, pub), (T_ENC, enc)], expected)
        except StopIteration:
            ex.require(False, "no keys are handed out on M2")
            return ex.observe("keys-at-M2")
        except Exception:
            ex.tag("replay-rejected")
            return ex.observe("replay-rejected")
        ex.require(False, "an M2 recorded in an earlier exchange is rejected in the next one")
        return ex.observe("REPLAY-ACCEPTED")
    return h


def two_records(M):
    """the accessory was reset and paired again: same identifier, new long-term key.  Each exchange is judged by the key of
    the record it was started with"""
    def h(ex):
        be = hap.backend(ex, M.proto)
        rec_a = hap.pairing_data()
        rec_b = dict(rec_a, AccessoryLTPK=hap.LT_PUB["B"].hex())
        # an exchange under the old record first (whatever a process-wide cache remembers comes from here)
        gen = M.proto.get_session_keys(rec_a)
        req, expected = gen.send(None)
        acc = Accessory(be, eph="eA", lt="A")
        pub, enc = acc.m2(dict(req)[T_PUBKEY])
        try:
            send(M, be, gen, [(T_STATE, b"\x02"), (T_PUBKEY, pub), (T_ENC, enc)], expected)
            first = True
        except Exception:
            first = False
        ex.require(first, "the accessory holding the key of the record is accepted")
        signer = ex.choice("second_exchange_signed_with", ["new-key", "old-key"])
        gen = M.proto.get_session_keys(rec_b)
        req, expected = gen.send(None)
        acc2 = Accessory(be, eph="eA2", lt="B" if signer == "new-key" else "A")
        pub, enc = acc2.m2(dict(req)[T_PUBKEY])
        try:
            send(M, be, gen, [(T_STATE, b"\x02"), (T_PUBKEY, pub), (T_ENC, enc)], expected)
            accepted = True
        except StopIteration:
            accepted = True
        except Exception:
            accepted = False
        ex.tag(signer)
        if signer == "new-key":
            ex.require(accepted, "after re-pairing, the accessory holding the new record's key is accepted")
        else:
            ex.require(not accepted, "after re-pairing, a peer signing with the old record's key is rejected")
        return ex.observe([first, accepted])
    return h


TAGS = ["honest", "wrong-secret", "other-pubkey", "other-session-id", "arbitrary", "absent", "truncated-to-15", "first-byte-only", "empty"]
METHODS = ["resume", "absent", "other"]


def verify_resume(M):
    """resumption: accepted only with a tag derived from the previous session's secret, this M1's public key and the reply's session id"""
    def h(ex):
        be = hap.backend(ex, M.proto)
        # previous session: shared secret S0 known to controller and accessory
        prev = Accessory(be, eph="eP")
        prev.shared = be.dh("eP", be.eph_pub("eQ"))
        old_sid = prev.key(b"Pair-Verify-ResumeSessionID-Salt", b"Pair-Verify-ResumeSessionID-Info", 8)

        def derive0(salt, info, length=32):
            return M.proto.hkdf_derive(be.b(prev.shared), salt, info, length=length) if not be.sym else be.hkdf(prev.shared, salt, info, length)

        gen = M.proto.get_session_keys(hap.pairing_data(), be.b(old_sid), derive0)
        req, expected = gen.send(None)
        r = dict(req)
        ios_pub = r[T_PUBKEY]
        # the accessory checks the request tag
        rk = be.hkdf(prev.shared, hap.cat(be, ios_pub, old_sid), b"Pair-Resume-Request-Info")
        ex.require(T_ENC in r and be.decrypt(rk, b"PR-Msg01", r[T_ENC]) is not None and eq(be, r[T_SESSION], old_sid),
                   "resume M1 carries the old session id and a tag the accessory verifies")
        new_sid = be.arbitrary("newsid", 8)
        msel, tsel = ex.choice("method", METHODS), ex.choice("tag", TAGS)

        def tag_for(secret, pub, sid):
            return be.encrypt(be.hkdf(secret, hap.cat(be, pub, sid), b"Pair-Resume-Response-Info"), b"PR-Msg02", b"")

        honest_tag = tag_for(prev.shared, ios_pub, new_sid)
        if tsel == "honest":
            tag = honest_tag
        elif tsel == "wrong-secret":
            tag = tag_for(be.dh("eX", be.eph_pub("eQ")), ios_pub, new_sid)
        elif tsel == "other-pubkey":
            tag = tag_for(prev.shared, be.eph_pub("eC2"), new_sid)
        elif tsel == "other-session-id":
            tag = tag_for(prev.shared, ios_pub, old_sid)
        elif tsel == "arbitrary":
            tag = be.arbitrary("tag", 16, avoid=be.known_values(("aead",)))
        elif tsel in ("truncated-to-15", "first-byte-only", "empty"):
            k = {"truncated-to-15": 15, "first-byte-only": 1, "empty": 0}[tsel]
            tag = as_rope(honest_tag).slice(0, k) if be.sym else bytes(honest_tag)[:k]  # a prefix of the right tag is not the tag
        else:
            tag = None
        fields = [(T_STATE, b"\x02")]
        if msel == "resume":
            fields.append((T_METHOD, b"\x06"))
        elif msel == "other":
            fields.append((T_METHOD, b"\x01"))
        fields.append((T_SESSION, new_sid))
        if tag is not None:
            fields.append((T_ENC, tag))
        ok = msel == "resume" and tag is not None and decide(eq(be, tag, honest_tag)) and decide(slen(new_sid) > 0)
        # resume replies carry Method and SessionID: the transports must keep them
        try:
            send(M, be, gen, fields, None)
        except StopIteration as r2:
            ex.require(ok, "a resumption reply derived from a wrong secret / other key / other session id is not accepted")
            if ok:
                ex.tag("resumed")
                sid, derive = r2.value
                secret = be.hkdf(prev.shared, hap.cat(be, ios_pub, new_sid), b"Pair-Resume-Shared-Secret-Info")
                ex.require(eq(be, sid, new_sid), "the resumed session keeps the accessory's new session id")
                for salt, info in ((b"Control-Salt", b"Control-Write-Encryption-Key"), (b"Control-Salt", b"Control-Read-Encryption-Key")):
                    ex.require(eq(be, derive(salt, info), be.hkdf(secret, salt, info)), "resumed keys are derived from the resume shared secret")
            return ex.observe("resumed")
        except Exception as e:
            ex.tag("not-resumed")
            ex.require(not ok, "an authentic resumption reply is accepted")
            return ex.observe("rejected")
        ex.require(not ok, "an authentic resumption reply ends the exchange")
        return ex.observe("continued-full-verify")
    return h


# ------------------------------------------------------------------ key installation by the transports
def scripted_generator(M, be, acc_holder):
    """the real get_session_keys, answered by the conformant accessory"""
    def run(gen):
        req, expected = gen.send(None)
        acc = Accessory(be)
        acc_holder.append(acc)
        pub, enc = acc.m2(dict(req)[T_PUBKEY])
        req, expected = send(M, be, gen, [(T_STATE, b"\x02"), (T_PUBKEY, pub), (T_ENC, enc)], expected)
        try:
            send(M, be, gen, [(T_STATE, b"\x04")], expected)
        except StopIteration as r:
            return r.value
        raise AssertionError("no keys")
    return run


def install_ble(M):
    def h(ex):
        be = hap.backend(ex, M.proto)
        accs = []
        p = object.__new__(M.blep.BlePairing)
        p._ble_request_lock = asyncio.Lock()
        p.client = None
        p.pairing_data = hap.pairing_data()
        p._session_id = None
        p._derive = None
        run = scripted_generator(M, be, accs)

        async def drive_sm(client, characteristic, state_machine):
            return run(state_machine)

        saved = M.blep.drive_pairing_state_machine
        M.blep.drive_pairing_state_machine = drive_sm
        if be.sym:
            M.blekey.ChaCha20Poly1305Encryptor = M.blekey.ChaCha20Poly1305Decryptor = ideal_aead_class(M.blekey.DecryptionError)
        try:
            drive(p._async_pair_verify())
        finally:
            M.blep.drive_pairing_state_machine = saved
        acc = accs[0]
        wkey, rkey = acc.key(b"Control-Salt", b"Control-Write-Encryption-Key"), acc.key(b"Control-Salt", b"Control-Read-Encryption-Key")
        # functional check: what the controller encrypts, the accessory decrypts with its *write* key at counter 0, and vice versa
        ct = p._encryption_key.encrypt(b"hello")
        nonce0 = b"\x00" * 4 + b"\x00" * 8
        ex.require(p._encryption_key.counter == 1 and p._decryption_key.counter == 0, "ble: fresh keys start at counter 0")
        if be.sym:
            aead = ideal_aead_class(M.blekey.DecryptionError)
            try:
                ok1 = rope_eq(aead(wkey).decrypt(b"", nonce0, ct), b"hello")
            except M.blekey.DecryptionError:
                ok1 = False
            try:
                ok2 = rope_eq(p._decryption_key.decrypt(aead(rkey).encrypt(b"", nonce0, b"world")), b"world")
            except M.blekey.DecryptionError:
                ok2 = False
        else:
            from cryptography.hazmat.primitives.ciphers.aead import ChaCha20Poly1305
            try:
                ok1 = ChaCha20Poly1305(bytes(wkey)).decrypt(nonce0, bytes(ct), b"") == b"hello"
            except Exception:
                ok1 = False
            try:
                ok2 = p._decryption_key.decrypt(ChaCha20Poly1305(bytes(rkey)).encrypt(nonce0, b"world", b"")) == b"world"
            except Exception:
                ok2 = False
        ex.require(ok1, "ble: requests are encrypted with the key the accessory uses for reading them (Control-Write-Encryption-Key)")
        ex.require(ok2, "ble: responses are decrypted with Control-Read-Encryption-Key")
        ex.require(p._session_id is not None and p._derive is not None, "ble: resume state is kept")
        return ex.observe([bool(ok1), bool(ok2)])
    return h


def install_ip(M):
    def h(ex):
        be = hap.backend(ex, M.proto)
        accs = []
        conn = object.__new__(M.ipc.SecureHomeKitConnection)
        conn.owner = None
        conn.pairing_data = hap.pairing_data()
        conn.hosts, conn.port, conn.connected_host = ["10.0.0.1"], 80, "10.0.0.1"
        conn._pair_verify_failed_hosts = set()
        # left over from an earlier verified session on this object (the connection was lost and is being re-established)
        conn.is_secure, conn.closed, conn.protocol = True, False, object()
        run = scripted_generator(M, be, accs)
        state = {"reported": []}

        class Transport:
            def set_protocol(self, p):
                state["proto"] = p

            def is_closing(self):
                return False

        conn.transport = Transport()

        async def base_connect_once(self):
            return None

        saved_base = M.ipc.HomeKitConnection._connect_once
        saved_gsk = M.ipc.get_session_keys
        saved_init = M.ipc.InsecureHomeKitProtocol.__init__
        M.ipc.HomeKitConnection._connect_once = base_connect_once

        def insecure_init(self, connection):
            self.connection = connection
            self.result_cbs = []
            self.current_response = M.ipc.HttpResponse()
            self.loop = None

        M.ipc.InsecureHomeKitProtocol.__init__ = insecure_init
        # post_tlv is fed by the generator runner: emulate the transport loop of _connect_once
        replies = []

        def gsk(pairing_data):
            gen = saved_gsk(pairing_data)
            state["gen"] = gen
            return gen

        M.ipc.get_session_keys = gsk
        acc = Accessory(be)
        accs.append(acc)

        async def post_tlv(target, body, expected=None):
            state["reported"].append((bool(conn.is_secure), bool(conn.is_connected)))
            d = dict(body)
            st = bytes(as_rope(d[T_STATE]).concrete()) if be.sym else bytes(d[T_STATE])
            if st == b"\x01":
                pub, enc = acc.m2(d[T_PUBKEY])
                fields = [(T_STATE, b"\x02"), (T_PUBKEY, pub), (T_ENC, enc)]
            else:
                fields = [(T_STATE, b"\x04")]
            bodyb = tlv8_encode(fields)
            return M.tlv.TLV.decode_bytes(bodyb if be.sym else bytes(bodyb.concrete()), expected=expected)

        conn.post_tlv = post_tlv
        if be.sym:
            M.ipc.ChaCha20Poly1305Encryptor = M.ipc.ChaCha20Poly1305Decryptor = ideal_aead_class(M.ipc.DecryptionError)
        try:
            drive(conn._connect_once())
        finally:
            M.ipc.HomeKitConnection._connect_once = saved_base
            M.ipc.get_session_keys = saved_gsk
            M.ipc.InsecureHomeKitProtocol.__init__ = saved_init
        p = conn.protocol
        wkey, rkey = acc.key(b"Control-Salt", b"Control-Write-Encryption-Key"), acc.key(b"Control-Salt", b"Control-Read-Encryption-Key")
        ex.require(len(state["reported"]) == 2 and not any(s or c for s, c in state["reported"]),
                   "ip: while pair-verify is in flight the connection reports itself neither secure nor connected (a waiting request would go out in plaintext to an unverified peer)")
        ex.require(conn.is_secure is True and state.get("proto") is p, "ip: the secure protocol is installed on the transport")
        ex.require(p.c2a_counter == 0 and p.a2c_counter == 0, "ip: fresh keys start at counter 0")
        ex.require(eq(be, p.c2a_key, wkey), "ip: requests use Control-Write-Encryption-Key")
        ex.require(eq(be, p.a2c_key, rkey), "ip: responses use Control-Read-Encryption-Key")
        # functional: the encryptor really uses the write key, the decryptor the read key
        hdr, nonce0 = b"\x05\x00", b"\x00" * 12
        ct = p.encryptor.encrypt(hdr, nonce0, b"hello")
        if be.sym:
            aead = ideal_aead_class(M.ipc.DecryptionError)
            try:
                ok1 = rope_eq(aead(wkey).decrypt(hdr, nonce0, ct), b"hello")
            except M.ipc.DecryptionError:
                ok1 = False
            try:
                ok2 = rope_eq(p.decryptor.decrypt(hdr, nonce0, aead(rkey).encrypt(hdr, nonce0, b"world")), b"world")
            except M.ipc.DecryptionError:
                ok2 = False
        else:
            from cryptography.hazmat.primitives.ciphers.aead import ChaCha20Poly1305
            try:
                ok1 = ChaCha20Poly1305(bytes(wkey)).decrypt(nonce0, bytes(ct), hdr) == b"hello"
                ok2 = p.decryptor.decrypt(hdr, nonce0, ChaCha20Poly1305(bytes(rkey)).encrypt(nonce0, b"world", hdr)) == b"world"
            except Exception:
                ok1 = ok2 = False
        ex.require(ok1, "ip: the accessory decrypts requests with its read-of-writes key")
        ex.require(ok2, "ip: the controller decrypts what the accessory encrypts with Control-Read-Encryption-Key")
        return ex.observe([bool(ok1), bool(ok2)])
    return h


def install_coap(M):
    def h(ex):
        from .c06 import IdealChaCha, nonce
        from cryptography.exceptions import InvalidTag
        from cryptography.hazmat.primitives.ciphers.aead import ChaCha20Poly1305 as RealChaCha
        be = hap.backend(ex, M.proto)
        acc = Accessory(be)
        conn = object.__new__(M.coap.CoAPHomeKitConnection)
        conn.address, conn.enc_ctx, conn.owner = "[::1]:5683", None, None

        class Msg:
            def __init__(self, code=None, payload=b"", uri=None):
                self.code, self.payload, self.uri = code, payload, uri

        class Pending:
            def __init__(self, reply):
                self.reply = reply

            @property
            def response(self):
                async def r():
                    return self.reply
                return r()

        class Client:
            def request(self, msg):
                d = dict(M.tlv.TLV.decode_bytes(msg.payload))
                st = bytes(as_rope(d[T_STATE]).concrete()) if be.sym else bytes(d[T_STATE])
                if st == b"\x01":
                    pub, enc = acc.m2(d[T_PUBKEY])
                    fields = [(T_STATE, b"\x02"), (T_PUBKEY, pub), (T_ENC, enc)]
                else:
                    fields = [(T_STATE, b"\x04")]
                body = tlv8_encode(fields)
                return Pending(Msg(payload=body if be.sym else bytes(body.concrete())))

            async def shutdown(self):
                pass

        class Ctx:
            @staticmethod
            async def create_server_context(root, bind=None):
                return Client()

        class Site:
            def add_resource(self, path, res):
                pass

        class Res:
            Resource = object

        Res.Site = Site

        class NoTimeout:
            def __init__(self, t):
                pass

            async def __aenter__(self):
                return self

            async def __aexit__(self, *a):
                return False

        saved = {k: getattr(M.coap, k) for k in ("Context", "Message", "resource", "asyncio_timeout", "ChaCha20Poly1305", "EventResource")}
        M.coap.Context, M.coap.Message, M.coap.resource, M.coap.asyncio_timeout = Ctx, Msg, Res, NoTimeout
        M.coap.EventResource = lambda c: None
        if be.sym:
            M.coap.ChaCha20Poly1305 = IdealChaCha
        try:
            drive(conn.do_pair_verify(hap.pairing_data()))
        finally:
            for k, v in saved.items():
                setattr(M.coap, k, v)
        ctx = conn.enc_ctx
        mk = IdealChaCha if be.sym else RealChaCha
        wkey, rkey, ekey = (acc.key(b"Control-Salt", b"Control-Write-Encryption-Key"), acc.key(b"Control-Salt", b"Control-Read-Encryption-Key"),
                            acc.key(b"Event-Salt", b"Event-Read-Encryption-Key"))
        ex.require(ctx.send_ctr == 0 and ctx.recv_ctr == 0 and ctx.event_ctr == 0, "coap: fresh keys start at counter 0")
        n0 = nonce(0) if be.sym else bytes(nonce(0).concrete())

        def opens(key, ct, want):
            try:
                return bool(rope_eq(mk(be.b(key)).decrypt(n0, ct, b""), want))
            except InvalidTag:
                return False

        def accepts(fn, key, msg):
            try:
                return bool(rope_eq(fn(mk(be.b(key)).encrypt(n0, msg, b"")), msg))
            except InvalidTag:
                return False

        ok1 = opens(wkey, ctx.encrypt(b"request"), b"request")
        ok2 = accepts(ctx.decrypt, rkey, b"response")
        ok3 = accepts(ctx.decrypt_event, ekey, b"event")
        ex.require(ok1, "coap: requests are encrypted with Control-Write-Encryption-Key")
        ex.require(ok2, "coap: responses are decrypted with Control-Read-Encryption-Key")
        ex.require(ok3, "coap: events are decrypted with the key from Event-Salt / Event-Read-Encryption-Key")
        return ex.observe([ok1, ok2, ok3])
    return h


def build(tier, mutate=None):
    C = copies(mutate)
    R = reals()
    units = [
        Unit("verify/adversarial-M2", verify_full(C), verify_full(R), split=True,
             bounds={"public_key": PK, "encrypted_data": CT, "adversary sub-TLV": {"identifier": IDS, "signature": SIGS, "layout": ORDER},
                     "arbitrary fields": "symbolic bytes of the real lengths (32/31/93/64/8)"},
             regions=["accepted", "rejected", "m4-rejected"]),
        Unit("verify/two-exchanges", two_exchanges(C), two_exchanges(R), bounds={"exchanges": 2, "replayed": "the first exchange's genuine M2"},
             regions=["replay-rejected"]),
        Unit("verify/two-records-same-identifier", two_records(C), two_records(R), bounds={"records": "same AccessoryPairingID, long-term keys A then B"},
             regions=["new-key", "old-key"]),
        Unit("verify/resume", verify_resume(C), verify_resume(R), split=True,
             bounds={"method": METHODS, "tag": TAGS, "new session id": "8 arbitrary bytes"}, regions=["resumed", "not-resumed"]),
        Unit("install/ble", install_ble(C), install_ble(R), bounds={"exchange": "honest"}),
        Unit("install/ip", install_ip(C), install_ip(R), bounds={"exchange": "honest"}),
        Unit("install/coap", install_coap(C), install_coap(R), bounds={"exchange": "honest"}),
    ]
    for u in units:
        u.diff_sample = 100000  # every proved path is also replayed with real cryptography on the real library
    return units


CANARIES = [
    ("signature check dropped", {PROTO: lambda s: s.replace('        accessory_ltpk.verify(bytes(accessory_sig), bytes(accessory_info))\n', "        pass\n")}, lambda n: n.startswith("verify/adv")),
    ("identifier check dropped", {PROTO: lambda s: s.replace('    if pairing_data["AccessoryPairingID"] != accessory_name:', "    if False:")}, lambda n: n.startswith("verify/adv")),
    ("transcript order swapped", {PROTO: lambda s: s.replace("accessory_info = accessory_session_pub_key_bytes + accessory_name.encode() + ios_key_pub", "accessory_info = ios_key_pub + accessory_name.encode() + accessory_session_pub_key_bytes")}, lambda n: n.startswith("verify/adv")),
    ("controller proof label", {PROTO: lambda s: s.replace('b"", NONCE_PADDING + b"PV-Msg03", bytes(sub_tlv)', 'b"", NONCE_PADDING + b"PV-Msg02", bytes(sub_tlv)')}, lambda n: n.startswith("verify/adv")),
    ("ble key labels swapped", {BLEP: lambda s: s.replace('self._encryption_key = EncryptionKey(derive(b"Control-Salt", b"Control-Write-Encryption-Key"))', 'self._encryption_key = EncryptionKey(derive(b"Control-Salt", b"Control-Read-Encryption-Key"))')}, lambda n: n.startswith("install/ble")),
    ("ip keys swapped", {IPC: lambda s: s.replace("            a2c_key,\n            c2a_key,\n        )", "            c2a_key,\n            a2c_key,\n        )")}, lambda n: n.startswith("install/ip")),
    ("resume tag not checked", {PROTO: lambda s: s.replace("    except DecryptionError:\n        logger.debug(\"M3: Failure to resume existing session: Could not decrypt kTLVType_EncryptedData\")\n        return None", "    except DecryptionError:\n        plaintext = b\"\"")}, lambda n: n.startswith("verify/resume")),
]

ASSUMPTIONS = [
    "ideal (Dolev-Yao) cryptography, DESIGN.md 4.2: keys, signatures, ciphertexts and HKDF outputs are opaque terms; a forged/altered/truncated value is 'any byte string other than the genuine one' and the real primitives are assumed to reject it; the adversary knows its own ephemeral secret, every public value and recorded messages of other exchanges, never honest secrets",
    "long-term keys are fixed concrete byte strings; identifiers are the fixed strings of harness/hap.py; arbitrary adversary fields are symbolic bytes of the real lengths",
    "on the real library the same scenarios are replayed with real X25519/Ed25519/ChaCha20-Poly1305/HKDF (model-based differential on sampled paths)",
    "transport key installation is exercised against an honest exchange with the surrounding I/O stubbed (BLE: drive_pairing_state_machine, IP: base _connect_once/post_tlv, CoAP: aiocoap Context/Message/resource)",
]


def main(tier, seed, only=None):
    units = common.filter_units(build(tier), only)
    can = None
    if tier == "thorough" and only is None:
        can = lambda: run_canaries(lambda mut: build("canary", mut), CANARIES, seed)
    return check_property(
        PROP, units, tier, seed,
        explanation="The real get_session_keys state machine (with resume) runs against an ideal-crypto adversary whose M2 reply is "
                    "assembled from selectors and symbolic bytes (wrong/foreign/arbitrary/short keys, forged, truncated, replayed, "
                    "adversary-encrypted sub-TLVs with every identifier/signature/layout variant); z3 decides field by field whether "
                    "the reply is the genuine one and the check proves 'accepted iff genuine', that the conformant accessory accepts "
                    "M3 and that both ends derive identical keys; IP and BLE key installation are checked for label and direction.",
        assumptions=ASSUMPTIONS, stubs=["x25519/ed25519/ChaCha20Poly1305/hkdf_derive -> ideal primitives", "transport I/O -> scripted accessory", "logger -> no-op"],
        bounds={"tier": tier}, canaries=can, design_ref="DESIGN.md section 5, C01")


def replay(doc):
    return common.std_replay(PROP, build("thorough"), doc)
