"""C06 - no nonce is reused and no encrypted message is accepted twice or out of order (IP, BLE, CoAP).
One inductive step from an ARBITRARY counter state per primitive operation: together with 'fresh keys start at counter 0'
(C01 install units) this gives the property for histories of any length under one key.
Real code: ip/connection.py SecureHomeKitProtocol, ble/key.py EncryptionKey/DecryptionKey, coap/connection.py EncryptionContext."""
import aiohomekit.controller.ble.key as real_blekey
import aiohomekit.controller.coap.connection as real_coap
import aiohomekit.controller.ip.connection as real_ipc
from cryptography.exceptions import InvalidTag
from cryptography.hazmat.primitives.ciphers.aead import ChaCha20Poly1305 as RealChaCha

from symx import Unit, as_rope, check_property, decide, drive, int_to_rope, load, rope_eq, run_canaries, slen
from symx.ideal import IdealAEAD, World, ideal_aead_class
from symx.rope import SymBytes

from . import common
from .c05 import Env, Recorder, new_protocol
from .refs import rope

PROP = "C06"
IPC, BLEKEY, COAP = "aiohomekit.controller.ip.connection", "aiohomekit.controller.ble.key", "aiohomekit.controller.coap.connection"
BIG = 2 ** 48


class Mods:
    pass


def copies(mutate=None):
    mutate = mutate or {}
    m = Mods()
    m.ipc = load(IPC, src_transform=mutate.get(IPC))
    m.blekey = load(BLEKEY, src_transform=mutate.get(BLEKEY))
    m.coap = load(COAP, src_transform=mutate.get(COAP))
    return m


def reals():
    m = Mods()
    m.ipc, m.blekey, m.coap = real_ipc, real_blekey, real_coap
    return m


def nonce(c):
    return rope(b"\x00\x00\x00\x00", int_to_rope(c, 8, "little"))


def is_sym(ex):
    return not getattr(ex, "concrete", False)


def B(ex, x):
    return x if is_sym(ex) else bytes(as_rope(x).concrete())


# ------------------------------------------------------------------ IP receive step
def ip_receive(M):
    def h(ex):
        env = Env(M.ipc, ex)
        key = env.key("a2c")
        r0 = ex.fresh_int("recv0", 0, BIG)
        genuine = ex.fresh_bool("genuine")
        c = ex.fresh_int("c", 0, BIG)
        pt = ex.fresh_bytes("pt", 1, 64, opaque=True)
        L = slen(pt)
        hdr = int_to_rope(L, 2, "little")
        acc = env.encryptor(key)
        ct = acc.encrypt(env.b(hdr), env.b(nonce(c)), env.b(pt))
        if not genuine:
            ct = env.W.term(("forged", 0), L + 16) if env.sym else bytes(b ^ 0x5A for b in bytes(ct))
        err = None
        with Recorder(M.ipc) as rec:
            p = new_protocol(env, key, env.key("c2a"), a2c0=r0)
            try:
                p.data_received(env.b(rope(hdr, ct)))
            except RuntimeError:
                err = "RuntimeError"
        accepted = len(rec.delivered) > 0
        should = genuine and decide(c == r0)
        ex.require(accepted == bool(should), "ip: a frame is accepted iff it is the genuine frame with exactly the next counter (no replay, no reordering, no forgery)")
        if accepted:
            ex.tag("accepted")
            ex.require(p.a2c_counter == r0 + 1, "ip: the receive counter advances exactly once per accepted frame")
            ex.require(len(rec.delivered) == 1 and rope_eq(rec.delivered[0], pt), "ip: delivered once, unchanged")
        else:
            ex.tag("rejected")
            ex.require(err == "RuntimeError", "ip: a rejected frame ends the session")
            ex.require(p.a2c_counter == r0, "ip: a failed decrypt leaves the receive counter unchanged")
        return ex.observe([accepted, err])
    return h


# ------------------------------------------------------------------ BLE keys
def ble_step(M, direction):
    def h(ex):
        sym = is_sym(ex)
        if sym:
            M.blekey.ChaCha20Poly1305Encryptor = M.blekey.ChaCha20Poly1305Decryptor = ideal_aead_class(M.blekey.DecryptionError)
            kb = World.get().term(("key", "k"), 32)
        else:
            kb = b"k" * 32
        c0 = ex.fresh_int("counter0", 0, BIG)
        pt = ex.fresh_bytes("pt", 0, 64, opaque=True)
        if direction == "encrypt":
            k = M.blekey.EncryptionKey(kb)
            ex.require(k.counter == 0, "ble: a new key starts at counter 0")
            k.counter = c0
            ct = k.encrypt(B(ex, pt))
            # the accessory decrypts with exactly counter c0; any other counter must fail
            if sym:
                aead = ideal_aead_class(M.blekey.DecryptionError)
                try:
                    ok = rope_eq(aead(kb).decrypt(b"", nonce(c0), ct), pt)
                except M.blekey.DecryptionError:
                    ok = False
            else:
                try:
                    ok = RealChaCha(kb).decrypt(bytes(nonce(c0).concrete()), bytes(ct), b"") == pt
                except InvalidTag:
                    ok = False
            ex.require(ok, "ble: the nonce is the current send counter (never used before under this key)")
            ex.require(k.counter == c0 + 1, "ble: the send counter advances exactly once per encryption")
            return ex.observe(bool(ok))
        genuine = ex.fresh_bool("genuine")
        c = ex.fresh_int("c", 0, BIG)
        if sym:
            aead = ideal_aead_class(M.blekey.DecryptionError)
            ct = aead(kb).encrypt(b"", nonce(c), pt) if genuine else World.get().term(("forged", 0), slen(pt) + 16)
        else:
            ct = RealChaCha(kb).encrypt(bytes(nonce(c).concrete()), pt, b"")
            if not genuine:
                ct = bytes(b ^ 0x5A for b in ct)
        k = M.blekey.DecryptionKey(kb)
        ex.require(k.counter == 0, "ble: a new key starts at counter 0")
        k.counter = c0
        try:
            out = k.decrypt(B(ex, ct))
            accepted = True
        except M.blekey.DecryptionError:
            accepted = False
        should = genuine and decide(c == c0)
        ex.require(accepted == bool(should), "ble: a fragment is accepted iff it is genuine and carries exactly the next counter")
        if accepted:
            ex.tag("accepted")
            ex.require(rope_eq(out, pt) and k.counter == c0 + 1, "ble: accepted once, counter advanced once")
        else:
            ex.tag("rejected")
            ex.require(k.counter == c0, "ble: a failed decrypt leaves the counter unchanged")
        return ex.observe(accepted)
    return h


# ------------------------------------------------------------------ CoAP
class IdealChaCha(IdealAEAD):
    """cryptography's ChaCha20Poly1305 interface (nonce, data, aad) over the ideal AEAD"""
    error = InvalidTag

    def encrypt(self, nonce_, data, aad):
        return IdealAEAD.encrypt(self, aad or b"", nonce_, data)

    def decrypt(self, nonce_, data, aad):
        return IdealAEAD.decrypt(self, aad or b"", nonce_, data)


class Msg:
    def __init__(self, payload):
        self.payload = payload


def coap_ctx(ex, M, r0, s0, e0):
    sym = is_sym(ex)
    if sym:
        W = World.get()
        keys = {n: W.term(("key", n), 32) for n in ("recv", "send", "event")}
        mk = IdealChaCha
    else:
        keys = {n: (n.encode() * 32)[:32] for n in ("recv", "send", "event")}
        mk = RealChaCha
    log = {"shutdown": False}

    class CoapCtx:
        async def shutdown(self):
            log["shutdown"] = True

    ctx = M.coap.EncryptionContext(mk(keys["recv"]), mk(keys["send"]), mk(keys["event"]), "coap://x/", CoapCtx())
    ex.require(ctx.recv_ctr == 0 and ctx.send_ctr == 0 and ctx.event_ctr == 0, "coap: a new context starts all counters at 0")
    ctx.recv_ctr, ctx.send_ctr, ctx.event_ctr = r0, s0, e0
    return ctx, keys, mk, log


def coap_step(M, op):
    def h(ex):
        sym = is_sym(ex)
        r0, s0, e0 = ex.fresh_int("recv0", 0, BIG), ex.fresh_int("send0", 0, BIG), ex.fresh_int("event0", 0, BIG)
        ctx, keys, mk, log = coap_ctx(ex, M, r0, s0, e0)
        pt = ex.fresh_bytes("pt", 1, 48, opaque=True)
        if op == "encrypt":
            ct = ctx.encrypt(B(ex, pt))
            try:
                ok = rope_eq(mk(keys["send"]).decrypt(B(ex, nonce(s0)), B(ex, ct) if sym else bytes(ct), b""), pt)
            except InvalidTag:
                ok = False
            ex.require(ok, "coap: the request nonce is the current send counter (never used before under this key)")
            ex.require(ctx.send_ctr == s0 + 1, "coap: the send counter advances exactly once per request")
            ex.require(ctx.recv_ctr == r0 and ctx.event_ctr == e0, "coap: sending does not touch the receive counters")
            return ex.observe(bool(ok))
        genuine = ex.fresh_bool("genuine")
        c = ex.fresh_int("c", 0, BIG)
        which = "event" if op == "event" else "recv"
        ct = mk(keys[which]).encrypt(B(ex, nonce(c)), B(ex, pt), b"")
        if not genuine:
            ct = World.get().term(("forged", 0), slen(pt) + 16) if sym else bytes(b ^ 0x5A for b in ct)
        before = r0 if which == "recv" else e0
        try:
            if op == "response":
                out = drive(ctx._decrypt_response(Msg(B(ex, ct) if sym else bytes(ct))))
            elif op == "event":
                out = ctx.decrypt_event(B(ex, ct) if sym else bytes(ct))
            else:
                out = ctx.decrypt(B(ex, ct) if sym else bytes(ct))
            accepted = True
        except (InvalidTag, M.coap.EncryptionError):
            accepted = False
        after = ctx.recv_ctr if which == "recv" else ctx.event_ctr
        dead = ctx.coap_ctx is None
        if accepted:
            ex.tag("accepted")
            ex.require(genuine, "coap-%s: only a genuine message is accepted" % op)
            ex.require(rope_eq(out, pt), "coap-%s: delivered unchanged" % op)
            ex.require(c >= before, "coap-%s: a message below the receive counter is never accepted (no replay, no reordering)" % op)
            ex.require(after == c + 1, "coap-%s: the receive counter moves just past the accepted message" % op)
            if op != "response":
                ex.require(c == before, "coap-%s: accepted only with exactly the next counter" % op)
        else:
            ex.tag("rejected")
            if op != "response":
                ex.require(after == before, "coap-%s: a failed decrypt leaves the counter unchanged" % op)
            else:
                ex.require(dead and log["shutdown"], "coap-response: an undecryptable response ends the session")
        ex.require(dead or ctx.send_ctr >= s0, "coap-%s: the send counter never decreases while the session can still send (no nonce reuse)" % op)
        if op != "response":
            ex.require(ctx.send_ctr == s0, "coap-%s: receiving does not touch the send counter" % op)
        return ex.observe([accepted, dead])
    return h


POST_OUTCOMES = ["response", "network-error", "timeout", "cancelled", "not-found-then-garbage"]


def coap_post(M):
    """EncryptionContext.post_bytes: whatever happens to the exchange, the nonce it used is never available again"""
    def h(ex):
        import asyncio
        sym = is_sym(ex)
        r0, s0, e0 = ex.fresh_int("recv0", 0, BIG), ex.fresh_int("send0", 0, BIG), ex.fresh_int("event0", 0, BIG)
        ctx, keys, mk, log = coap_ctx(ex, M, r0, s0, e0)
        outcome = ex.choice("outcome", POST_OUTCOMES)
        pt = ex.fresh_bytes("pt", 1, 32, opaque=True)
        resp_pt = b"RESPONSE"
        sent = []

        class Msg:
            def __init__(self, code=None, payload=b"", uri=None):
                self.code, self.payload, self.uri = code, payload, uri

        class Pending:
            @property
            def response(self):
                async def r():
                    if outcome == "network-error":
                        raise M.coap.NetworkError("unreachable")
                    if outcome == "timeout":
                        raise asyncio.TimeoutError()
                    if outcome == "cancelled":
                        raise asyncio.CancelledError()
                    if outcome == "not-found-then-garbage":
                        return Msg(code=M.coap.Code.NOT_FOUND, payload=World.get().term(("forged", 1), 24) if sym else b"g" * 24)
                    ct = mk(keys["recv"]).encrypt(B(ex, nonce(r0)), resp_pt, b"")
                    return Msg(code=M.coap.Code.CHANGED, payload=ct if sym else bytes(ct))
                return r()

        class CoapCtx:
            def request(self, msg):
                sent.append(msg.payload)
                return Pending()

            async def shutdown(self):
                log["shutdown"] = True

        class NoTimeout:
            def __init__(self, t):
                pass

            async def __aenter__(self):
                return self

            async def __aexit__(self, *a):
                return False

        ctx.coap_ctx = CoapCtx()
        saved = (M.coap.Message, M.coap.asyncio_timeout)
        M.coap.Message, M.coap.asyncio_timeout = Msg, NoTimeout
        try:
            try:
                out = drive(ctx.post_bytes(B(ex, pt)))
                end = "returned"
            except asyncio.CancelledError:
                end = "cancelled"
            except (M.coap.AccessoryDisconnectedError, M.coap.EncryptionError) as e:
                end = type(e).__name__
        finally:
            M.coap.Message, M.coap.asyncio_timeout = saved
        ex.require(len(sent) == 1, "coap-post: exactly one request goes out")
        if len(sent) == 1:
            try:
                ok = rope_eq(mk(keys["send"]).decrypt(B(ex, nonce(s0)), sent[0], b""), pt)
            except InvalidTag:
                ok = False
            ex.require(ok, "coap-post: the request is sealed with the current send counter")
        dead = ctx.coap_ctx is None
        ex.require(dead or ctx.send_ctr >= s0 + 1, "coap-post: after an exchange that was cut short (cancelled, timed out, failed) the used nonce is never handed out again")
        if outcome == "response":
            ex.tag("completed")
            ex.require(end == "returned" and rope_eq(out, resp_pt) and ctx.recv_ctr == r0 + 1 and ctx.send_ctr == s0 + 1, "coap-post: a completed exchange advances both counters once")
        elif outcome == "cancelled":
            ex.tag("cancelled")
        return ex.observe([end, dead])
    return h


def resumed_keys(M):
    """key lifetime: a session that was resumed (Pair-Resume) starts its counters at 0 again, so it must not encrypt under the
    previous session's keys - the real resume path of get_session_keys against the resuming accessory of harness/c01.py"""
    from . import c01, hap

    def h(ex):
        be = hap.backend(ex, M.proto)
        prev = c01.Accessory(be, eph="eP")
        prev.shared = be.dh("eP", be.eph_pub("eQ"))
        old_sid = prev.key(b"Pair-Verify-ResumeSessionID-Salt", b"Pair-Verify-ResumeSessionID-Info", 8)

        def derive0(salt, info, length=32):
            return M.proto.hkdf_derive(be.b(prev.shared), salt, info, length=length) if not be.sym else be.hkdf(prev.shared, salt, info, length)

        gen = M.proto.get_session_keys(hap.pairing_data(), be.b(old_sid), derive0)
        req, expected = gen.send(None)
        ios_pub = dict(req)[c01.T_PUBKEY]
        new_sid = be.arbitrary("newsid", 8)
        tag = be.encrypt(be.hkdf(prev.shared, hap.cat(be, ios_pub, new_sid), b"Pair-Resume-Response-Info"), b"PR-Msg02", b"")
        try:
            c01.send(M, be, gen, [(c01.T_STATE, b"\x02"), (c01.T_METHOD, b"\x06"), (c01.T_SESSION, new_sid), (c01.T_ENC, tag)], None)
        except StopIteration as r:
            sid, derive = r.value
        except Exception:
            return ex.observe("resume-refused")
        else:
            return ex.observe("not-resumed")
        ex.tag("resumed")
        for info in (b"Control-Write-Encryption-Key", b"Control-Read-Encryption-Key"):
            new, old = derive(b"Control-Salt", info), derive0(b"Control-Salt", info)
            same = decide(rope_eq(new, old)) if be.sym else bytes(new) == bytes(old)
            ex.require(not same, "a resumed session (counters restart at 0) does not reuse the previous session's %s" % info.decode())
        return ex.observe("resumed")
    return h


def persisted_watermark(BM):
    """BlePairing._update_cached_state_num: what is written to the cache (and restored after a restart as the replay watermark of
    encrypted broadcasts) is the new state number, not the one before"""
    from . import ble_adv as BA

    def h(ex):
        old = ex.choice("cached_state_number", ["none", "a-number"])
        o = ex.fresh_int("old", 0, 65535)
        n = ex.fresh_int("new", 0, 65535)
        p = BA.new_pairing(BM, "uint8", True, None)
        p._accessories_state.state_num = None if old == "none" else o
        persisted = []
        p._update_accessories_state_cache = lambda: persisted.append(p._accessories_state.state_num)
        p._update_cached_state_num(n)
        ex.require(p._accessories_state.state_num == n, "the state number held in memory is the new one")
        changed = old == "none" or decide(o != n)
        if changed:
            ex.tag("persisted")
            ex.require(len(persisted) == 1 and persisted[0] == n, "a changed state number is persisted, and what is persisted is the new number")
        else:
            ex.require(not persisted or persisted[-1] == n, "nothing older than the current number is persisted")
        return ex.observe([len(persisted)])
    return h


def build(tier, mutate=None):
    from . import c05 as c05m
    C = copies(mutate)
    R = reals()
    units = [Unit("ip/receive-step", ip_receive(C), ip_receive(R), bounds={"recv_counter": "0..2^48 (symbolic)", "frame": "genuine with any counter 0..2^48, or forged"},
                  regions=["accepted", "rejected"])]
    for d in ("encrypt", "decrypt"):
        units.append(Unit("ble/%s-step" % d, ble_step(C, d), ble_step(R, d), bounds={"counter": "0..2^48 (symbolic)", "message": "genuine with any counter, or forged"},
                          regions=[] if d == "encrypt" else ["accepted", "rejected"]))
    for op in ("encrypt", "decrypt", "event", "response"):
        units.append(Unit("coap/%s-step" % op, coap_step(C, op), coap_step(R, op),
                          bounds={"recv/send/event counters": "0..2^48 each (symbolic)", "message": "genuine with any counter, or forged"},
                          regions=[] if op == "encrypt" else ["accepted", "rejected"]))
    units.append(Unit("coap/post_bytes-step", coap_post(C), coap_post(R), bounds={"counters": "0..2^48 (symbolic)", "exchange outcome": POST_OUTCOMES},
                      regions=["completed", "cancelled"]))
    if tier != "canary":
        from . import ble_adv as BA0
        from . import c01
        units.append(Unit("ble/persisted-watermark", persisted_watermark(BA0.copies(mutate)), persisted_watermark(BA0.reals()),
                          bounds={"old / new state number": "0..65535 each (symbolic), or nothing cached"}, regions=["persisted"]))
        # one session key is never used for two sessions: the controller's exchange key is fresh (unit of C01) ...
        C1, R1 = c01.copies(mutate), c01.reals()
        units.append(Unit("session/fresh-exchange-key (unit of C01)", c01.two_exchanges(C1), c01.two_exchanges(R1),
                          bounds={"exchanges": 2, "replayed": "the first exchange's genuine M2"}, regions=["replay-rejected"]))
        # ... and the receive counter survives every read boundary (unit of C05)
        units.append(Unit("ip/receive-two-frames-any-cuts (unit of C05)", c05m.inbound(C.ipc, 2, 2, None), c05m.inbound(R.ipc, 2, 2, None), split=True,
                          bounds={"frames": 2, "reads": 2, "cuts": "all positions (symbolic)"}, regions=["interior-cut"]))
        units.append(Unit("session/resumed-keys-differ", resumed_keys(c01.copies(mutate)), resumed_keys(c01.reals()),
                          bounds={"exchange": "an accepted Pair-Resume (any new session id)"}, regions=["resumed"]))
    # IP send step (the outbound half of C05 from an arbitrary send counter) and the BLE broadcast step (C18) complete the picture
    from . import ble_adv as BA
    from . import c05, c18
    units.append(Unit("ip/send-step", c05.outbound(C.ipc, 2049), c05.outbound(R.ipc, 2049), split=True,
                      bounds={"send_counter": "0..2^40 (symbolic)", "payload_len": "0..2049 (symbolic, up to 3 frames)"}, regions=["multi-frame"]))
    if tier != "canary":
        BC, BR = BA.copies(mutate), BA.reals()
        units.append(Unit("ble/broadcast-notification-step", c18.notification_unit(BC, "uint8"), c18.notification_unit(BR, "uint8"), split=True,
                          bounds={"see": "C18 notification-step/uint8"}, regions=["accepted", "ignored"], diff_sample=300))
    return units


CANARIES = [
    ("ip counter not advanced", {IPC: lambda s: s.replace("            self.a2c_counter += 1\n", "            pass\n")}, lambda n: n.startswith("ip/")),
    ("ble send counter not advanced", {BLEKEY: lambda s: s.replace("        data = self.key.encrypt(b\"\", PACK_NONCE(self.counter), data)\n        self.counter += 1", "        data = self.key.encrypt(b\"\", PACK_NONCE(self.counter), data)")}, lambda n: n == "ble/encrypt-step"),
    ("ble decrypt counter advanced before check", {BLEKEY: lambda s: s.replace("        data = self.key.decrypt(b\"\", PACK_NONCE(self.counter), data)\n        self.counter += 1", "        self.counter += 1\n        data = self.key.decrypt(b\"\", PACK_NONCE(self.counter - 1), data)")}, lambda n: n == "ble/decrypt-step"),
    ("coap event uses recv counter", {COAP: lambda s: s.replace('struct.pack("=4xQ", self.event_ctr), enc_data, b"")', 'struct.pack("=4xQ", self.recv_ctr), enc_data, b"")')}, lambda n: n == "coap/event-step"),
    ("coap send counter reused", {COAP: lambda s: s.replace("        self.send_ctr += 1\n        return enc_data", "        return enc_data")}, lambda n: n == "coap/encrypt-step"),
]

ASSUMPTIONS = [
    "ideal AEAD (DESIGN.md 4.2): a ciphertext decrypts only under the key, nonce and aad it was produced with; 'forged' is any other byte string",
    "one inductive step from an arbitrary counter state: invariant = every nonce counter already used is below the send counter, every message counter already accepted is below the receive counter; fresh cipher objects start at 0 (checked here and in C01's installation units)",
    "counters are mathematical integers in 0..2^48 (no wrap-around)",
    "the 'connection is closed after a failed or cancelled request' half (futures/cancellation on a running loop) is not decided here; the induction does not depend on it because a failed decrypt does not advance any counter on IP/BLE",
]


def main(tier, seed, only=None):
    units = common.filter_units(build(tier), only)
    can = None
    if tier == "thorough" and only is None:
        can = lambda: run_canaries(lambda mut: build("canary", mut), CANARIES, seed)
    return check_property(
        PROP, units, tier, seed,
        explanation="Each primitive operation of the three transports' session ciphers (IP data_received, BLE EncryptionKey/DecryptionKey, "
                    "CoAP EncryptionContext encrypt/decrypt/decrypt_event/_decrypt_response) is executed once from arbitrary symbolic "
                    "counters with a message that is genuine-with-symbolic-counter or forged; z3 discharges nonce freshness, accept-only-"
                    "in-order, at-most-once and counter monotonicity - an inductive step that covers histories of any length.",
        assumptions=ASSUMPTIONS, stubs=["ChaCha20Poly1305 / Encryptor / Decryptor -> ideal AEAD", "coap_ctx.shutdown -> recorder", "HTTP layer -> recorder"],
        bounds={"tier": tier}, canaries=can, design_ref="DESIGN.md section 5, C06")


def replay(doc):
    return common.std_replay(PROP, build("thorough"), doc)
