"""CLI: python -m harness.main C15 [--tier quick|thorough] [--replay FILE]"""
import argparse
import importlib
import json
import os
import sys
import logging

logging.disable(logging.CRITICAL)
try:  # kill -USR1 <pid> prints the Python stacks of all threads (diagnosing a stuck run)
    import faulthandler
    import signal
    faulthandler.register(signal.SIGUSR1, all_threads=True)
except Exception:
    pass


def main():
    ap = argparse.ArgumentParser()
    ap.add_argument("prop")
    ap.add_argument("--tier", default=os.environ.get("VERIF_TIER", "quick"), choices=["quick", "thorough"])
    ap.add_argument("--replay")
    ap.add_argument("--only", help="substring filter on unit names (debugging; the run is then reported as partial)")
    a = ap.parse_args()
    seed = int(os.environ.get("VERIF_SEED", "0") or 0)
    mod = importlib.import_module("harness.%s" % a.prop.lower())
    if a.replay:
        sys.exit(mod.replay(json.load(open(a.replay))))
    sys.exit(mod.main(a.tier, seed, only=a.only))


if __name__ == "__main__":
    main()
