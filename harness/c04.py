"""C04 - an accessory error or out-of-sequence reply never completes as success.
Real code: protocol/__init__.py (error_handler, handle_state_step, the three generators), TLV codec with the
'expected' filter as the transports apply it, IpPairing.add_pairing/remove_pairing, BlePairing.add_pairing/remove_pairing."""
import asyncio

import aiohomekit.controller.ble.client as real_client
import aiohomekit.controller.ble.pairing as real_blep
import aiohomekit.controller.ip.connection as real_ipc
import aiohomekit.controller.ip.pairing as real_ipp
import aiohomekit.exceptions as X
import aiohomekit.protocol as real_proto
import aiohomekit.protocol.tlv as real_tlv

from symx import Unit, as_rope, check_property, decide, drive, load, run_canaries
from symx.core import SymInt

from . import common, hap
from .refs import byte, rope, tlv8_encode

PROP = "C04"
IPC = "aiohomekit.controller.ip.connection"
TLVM, PROTO, IPP, BLEP = "aiohomekit.protocol.tlv", "aiohomekit.protocol", "aiohomekit.controller.ip.pairing", "aiohomekit.controller.ble.pairing"
CLIENT = "aiohomekit.controller.ble.client"
T_STATE, T_ERROR, T_PUBKEY, T_SALT, T_PROOF, T_ENC, T_ID, T_SIG = 6, 7, 3, 2, 4, 5, 1, 10


class Mods:
    pass


def copies(mutate=None):
    mutate = mutate or {}
    m = Mods()
    m.tlv = load(TLVM, src_transform=mutate.get(TLVM))
    common.keep_tlv_to_string(m.tlv)
    m.proto = hap.patch_protocol_copy(load(PROTO, deps={TLVM: m.tlv}, src_transform=mutate.get(PROTO)))
    m.ipp = load(IPP, deps={TLVM: m.tlv, PROTO: m.proto}, src_transform=mutate.get(IPP))
    m.blep = load(BLEP, deps={TLVM: m.tlv, PROTO: m.proto}, src_transform=mutate.get(BLEP))
    m.client = load(CLIENT, deps={TLVM: m.tlv}, src_transform=mutate.get(CLIENT))
    m.ipc = load(IPC, deps={TLVM: m.tlv, PROTO: m.proto}, src_transform=mutate.get(IPC))
    return m


def reals():
    m = Mods()
    m.tlv, m.proto, m.ipp, m.blep, m.client = real_tlv, real_proto, real_ipp, real_blep, real_client
    m.ipc = real_ipc
    return m


TABLE = {2: "AuthenticationError", 3: "BackoffError", 4: "MaxPeersError", 5: "MaxTriesError", 6: "UnavailableError", 7: "BusyError"}


def expected_class(ex, err_kind, code):
    """HAP table 4-5: exception class name for an Error field"""
    if err_kind != "byte":
        return "InvalidError"
    for c, name in TABLE.items():
        if decide(code == c):
            return name
    return "InvalidError"


def reply_fields(ex, be, expected_state, others):
    """symbolic reply: State (absent | any byte | empty), Error (absent | any byte | empty | two bytes), subset of `others`"""
    state_kind = ex.choice("state_kind", ["present", "absent", "empty", "expected-then-another-byte"])
    state = ex.fresh_int("state", 0, 255)
    err_kind = ex.choice("error_kind", ["absent", "byte", "empty", "two-bytes"])
    code = ex.fresh_int("error", 0, 255)
    fields = []
    if state_kind == "present":
        fields.append((T_STATE, byte(state)))
    elif state_kind == "empty":
        fields.append((T_STATE, b""))  # a State item truncated to zero length is not the expected step number
    elif state_kind == "expected-then-another-byte":
        fields.append((T_STATE, rope(byte(expected_state), byte(state))))  # only starts with the expected step (e.g. two State items joined)
    if err_kind == "byte":
        fields.append((T_ERROR, byte(code)))
    elif err_kind == "empty":
        fields.append((T_ERROR, b""))
    elif err_kind == "two-bytes":
        fields.append((T_ERROR, rope(byte(code), b"\x00")))
    for i, (t, v) in enumerate(others):
        if ex.fresh_bool("has_field%d" % i):
            fields.append((t, v))
    state_wrong = state_kind in ("empty", "expected-then-another-byte") or (state_kind == "present" and decide(state != expected_state))
    return fields, state_kind, state_wrong, err_kind, code


def deliver(ex, be, M, gen, fields, expected, transport):
    """what the transports do with the reply bytes before handing them to the state machine"""
    body = tlv8_encode(fields)
    body = body if be.sym else bytes(body.concrete())
    if transport == "filtered":  # IP post_tlv / CoAP: TLV.decode_bytes(body, expected=expected)
        msg = M.tlv.TLV.decode_bytes(body, expected=expected)
    elif transport == "ip-http":
        # the whole IP path: post_tlv -> post -> request with the reply carried by an HTTP 200 or an HTTP 4xx status
        status = ex.choice("http_status", [200, 470, 429])

        class Resp:
            code = status

        Resp.body = body

        class Proto:
            async def send_bytes(self, request_bytes):
                return Resp()

        class Tr:
            def close(self):
                pass

        conn = object.__new__(M.ipc.HomeKitConnection)
        conn.protocol, conn.transport, conn.host_header, conn.connected_host = Proto(), Tr(), "Host: 10.0.0.1", "10.0.0.1"
        conn._concurrency_limit = asyncio.Semaphore(1)
        conn.owner = None
        msg = drive(conn.post_tlv("/pair-step", body=[(T_STATE, b"\x01")], expected=expected))
        ex.tag("http-%d" % status)
    elif transport == "unfiltered":  # BLE _pairing_char_write, reply in one piece: dict(TLV.decode_bytes(buffer))
        msg = dict(M.tlv.TLV.decode_bytes(body))
    else:
        # BLE: the accessory delivers the reply as FragmentData + FragmentLast, split at an arbitrary position
        # (including a zero-length first or last fragment); the real _pairing_char_write reassembles it
        r = as_rope(body)
        n = r.length()
        k = ex.fresh_int("split", 0, 600)
        ex.assume(k <= n)
        pieces = [tlv8_encode([(0x0C, r.slice(0, k))]), tlv8_encode([(0x0D, r.slice(k, n))])]
        pieces = [p if be.sym else bytes(p.concrete()) for p in pieces]
        writes = []

        async def char_write(client, ek, dk, handle, iid, data):
            writes.append(data)
            return pieces[len(writes) - 1]

        class Client:
            address = "aa:bb"

        saved = M.client.char_write
        M.client.char_write = char_write
        try:
            msg = drive(M.client._pairing_char_write(Client(), "handle", 1, [(T_STATE, b"\x01")]))
        finally:
            M.client.char_write = saved
        ex.tag("fragmented")
    return gen.send(msg)


def judge(ex, outcome, exc, state_kind, state_wrong, err_kind, code, step):
    """the oracle of C04 for one delivered reply"""
    has_err = err_kind != "absent"
    if not (has_err or state_wrong):
        ex.tag("clean-reply")
        return
    ex.tag("error-or-wrong-state")
    if has_err and not state_wrong and state_kind == "absent":
        ex.tag("error-without-state")
    ex.require(outcome == "raised", "%s: a reply with an error code or a wrong step number never completes as success" % step)
    if outcome != "raised":
        return
    ex.require(isinstance(exc, X.HomeKitException), "%s: the failure is a library exception" % step)
    if has_err and not state_wrong:
        want = expected_class(ex, err_kind, code)
        ex.require(type(exc).__name__ == want, "%s: exception class documented for the error code (state %s)" % (step, "absent" if state_kind == "absent" else "as expected"))


def run_gen(fn):
    try:
        r = fn()
        return "yielded", r, None
    except StopIteration as s:
        return "returned", s.value, None
    except Exception as e:
        return "raised", None, e


# ------------------------------------------------------------------ protocol steps
def step_unit(M, step, transport):
    def h(ex):
        be = hap.backend(ex, M.proto)
        P = M.proto
        pd = hap.pairing_data()
        if step == "setup-M2":
            gen = P.perform_pair_setup_part1()
            req, expected = gen.send(None)
            srv = be.srp_server("111-22-333")
            others = [(T_SALT, srv.salt), (T_PUBKEY, srv.B)]
            fields, sk, sw, ek, code = reply_fields(ex, be, 2, others)
            out, val, exc = run_gen(lambda: deliver(ex, be, M, gen, fields, expected, transport))
        elif step in ("setup-M4", "setup-M6"):
            srv = be.srp_server("111-22-333")
            gen = P.perform_pair_setup_part2("111-22-333", hap.IOS_ID, be.ba(srv.salt), be.ba(srv.B))
            req, expected = gen.send(None)
            rq = dict(req)
            ok, m2proof = srv.proof_m2(rq[T_PUBKEY], rq[T_PROOF])
            ex.require(ok, "%s: (environment) the reference accessory accepts the controller's SRP proof" % step)
            if step == "setup-M4":
                fields, sk, sw, ek, code = reply_fields(ex, be, 4, [(T_PROOF, m2proof)])
                out, val, exc = run_gen(lambda: deliver(ex, be, M, gen, fields, expected, transport))
            else:
                req, expected = deliver(ex, be, M, gen, [(T_STATE, b"\x04"), (T_PROOF, m2proof)], expected, transport)
                K = srv.session_key()
                enc_key = be.hkdf(K, b"Pair-Setup-Encrypt-Salt", b"Pair-Setup-Encrypt-Info")
                acc_x = be.hkdf(K, b"Pair-Setup-Accessory-Sign-Salt", b"Pair-Setup-Accessory-Sign-Info")
                sig = be.sign("A", hap.cat(be, acc_x, hap.ACC_ID.encode(), hap.LT_PUB["A"]))
                sub = tlv8_encode([(T_ID, hap.ACC_ID.encode()), (T_PUBKEY, hap.LT_PUB["A"]), (T_SIG, sig)])
                m6 = be.encrypt(enc_key, b"PS-Msg06", be.b(sub))
                fields, sk, sw, ek, code = reply_fields(ex, be, 6, [(T_ENC, m6)])
                out, val, exc = run_gen(lambda: deliver(ex, be, M, gen, fields, expected, transport))
        else:  # verify-M2 / verify-M4
            gen = P.get_session_keys(pd)
            req, expected = gen.send(None)
            ios_pub = dict(req)[T_PUBKEY]
            acc_pub = be.eph_pub("eA")
            shared = be.dh("eA", ios_pub)
            sk_ = be.hkdf(shared, b"Pair-Verify-Encrypt-Salt", b"Pair-Verify-Encrypt-Info")
            sig = be.sign("A", hap.cat(be, acc_pub, hap.ACC_ID.encode(), ios_pub))
            sub = tlv8_encode([(T_ID, hap.ACC_ID.encode()), (T_SIG, sig)])
            m2enc = be.encrypt(sk_, b"PV-Msg02", be.b(sub))
            if step == "verify-M2":
                fields, sk, sw, ek, code = reply_fields(ex, be, 2, [(T_PUBKEY, acc_pub), (T_ENC, m2enc)])
                out, val, exc = run_gen(lambda: deliver(ex, be, M, gen, fields, expected, transport))
            else:
                req, expected = deliver(ex, be, M, gen, [(T_STATE, b"\x02"), (T_PUBKEY, acc_pub), (T_ENC, m2enc)], expected, transport)
                fields, sk, sw, ek, code = reply_fields(ex, be, 4, [])
                out, val, exc = run_gen(lambda: deliver(ex, be, M, gen, fields, expected, transport))
        judge(ex, out, exc, sk, sw, ek, code, step)
        return ex.observe([out, type(exc).__name__ if exc is not None else None])
    return h


def resume_unit(M, transport):
    """pair-verify M2 on the resume path: a reply with valid resume items still must not hide an error or a wrong state"""
    def h(ex):
        from .c01 import Accessory, T_METHOD, T_SESSION
        be = hap.backend(ex, M.proto)
        prev = Accessory(be, eph="eP")
        prev.shared = be.dh("eP", be.eph_pub("eQ"))
        old_sid = prev.key(b"Pair-Verify-ResumeSessionID-Salt", b"Pair-Verify-ResumeSessionID-Info", 8)

        def derive0(salt, info, length=32):
            return M.proto.hkdf_derive(be.b(prev.shared), salt, info, length=length) if not be.sym else be.hkdf(prev.shared, salt, info, length)

        gen = M.proto.get_session_keys(hap.pairing_data(), be.b(old_sid), derive0)
        req, expected = gen.send(None)
        ios_pub = dict(req)[T_PUBKEY]
        new_sid = b"NEWSID01"
        tag = be.encrypt(be.hkdf(prev.shared, hap.cat(be, ios_pub, new_sid), b"Pair-Resume-Response-Info"), b"PR-Msg02", b"")
        fields, sk, sw, ek, code = reply_fields(ex, be, 2, [])
        fields = fields + [(T_METHOD, b"\x06"), (T_SESSION, new_sid), (T_ENC, tag)]
        out, val, exc = run_gen(lambda: deliver(ex, be, M, gen, fields, expected, transport))
        judge(ex, out, exc, sk, sw, ek, code, "verify-M2(resume)")
        if not (ek != "absent" or sw):
            ex.require(out == "returned", "verify-M2(resume): a clean resume reply is accepted")
        return ex.observe([out, type(exc).__name__ if exc is not None else None])
    return h


# ------------------------------------------------------------------ pairing management (IP, BLE)
def mgmt_unit(M, which, op):
    def h(ex):
        be = hap.backend(ex, M.proto)
        fields, sk, sw, ek, code = reply_fields(ex, be, 2, [(T_ID, b"xx")])
        if ex.fresh_bool("other_fields_first"):  # nothing filters these replies: the order of the items must not matter
            fields = [f for f in fields if f[0] not in (T_STATE, T_ERROR)] + [f for f in fields if f[0] in (T_STATE, T_ERROR)]
        body = tlv8_encode(fields)

        async def ens():
            return None

        async def nothing(*a, **k):
            return None

        if which == "ip":
            p = object.__new__(M.ipp.IpPairing)
            p._ensure_connected = ens
            p._shutdown_if_primary_pairing_removed = nothing

            class Conn:
                async def post_tlv(self, target, request, expected=None):
                    return M.tlv.TLV.decode_bytes(body if be.sym else bytes(body.concrete()), expected=expected)  # as the real post_tlv

            p.connection = Conn()
        else:
            p = object.__new__(M.blep.BlePairing)
            p._shutdown = False
            # the link was down when the call was made: the operation reconnects first and subscriptions are restored afterwards
            p._restore_pending = ex.fresh_bool("subscriptions_restored_after_the_call")
            p._async_restore_subscriptions = nothing
            p._operation_lock = asyncio.Lock()
            p.description = None
            p.device = None
            p.pairing_data = {"AccessoryAddress": "aa", "iOSPairingId": "me", "AccessoryPairingID": "xx"}
            p.id = "x"
            p.client = None
            p._shutdown_if_primary_pairing_removed = nothing
            p._populate_accessories_and_characteristics = nothing

            class Svc(dict):
                pass

            class Services:
                def first(self, service_type=None):
                    return Svc({k: "char" for k in [M.blep.CharacteristicsTypes.PAIRING_PAIRINGS]})

            class Acc:
                services = Services()

            class Accs:
                def aid(self, a):
                    return Acc()

                def __bool__(self):
                    return True

            class St:
                accessories = Accs()

            p._accessories_state = St()
            outer = tlv8_encode([(1, body)])

            async def req(opcode, char, data=None, iid=None):
                return outer if be.sym else bytes(outer.concrete())

            p._async_request = req
        try:
            if op == "add":
                r = drive(p.add_pairing("other-ctl", hap.LT_PUB["B"].hex(), "User"))
            else:
                r = drive(p.remove_pairing("other-ctl"))
            out, exc = "returned", None
        except Exception as e:
            out, exc, r = "raised", e, None
        has_err = ek != "absent"
        if has_err or sw:
            ex.tag("error-or-wrong-state")
            ex.require(out == "raised", "%s %s-pairing: an error or a wrong step number is never reported as done" % (which, op))
            if out == "raised":
                ex.require(isinstance(exc, X.HomeKitException), "%s %s-pairing: the failure is a library error" % (which, op))
        else:
            ex.tag("clean-reply")
            ex.require(out == "returned", "%s %s-pairing: a clean M2 reply completes" % (which, op))
        return ex.observe([out, type(exc).__name__ if exc is not None else None])
    return h


STEPS = ["setup-M2", "setup-M4", "setup-M6", "verify-M2", "verify-M4"]


def build(tier, mutate=None):
    C = copies(mutate)
    R = reals()
    units = []
    names = {"filtered": "ip-coap(expected filter)", "unfiltered": "ble(one piece)", "fragmented": "ble(two fragments, any split)",
             "ip-http": "ip(post_tlv, HTTP 200 or 4xx)"}
    for step in STEPS:
        for transport in ("filtered", "unfiltered", "fragmented") + (("ip-http",) if step in ("verify-M4", "setup-M2") else ()):
            units.append(Unit("%s/%s" % (step, names[transport]),
                              step_unit(C, step, transport), step_unit(R, step, transport), split=True,
                              bounds={"state": "absent or any byte 0..255", "error": "absent, any byte 0..255, empty, two bytes", "other_fields": "every subset",
                                      "fragment split": "0..len(reply) (symbolic)" if transport == "fragmented" else "-"},
                              regions=["error-or-wrong-state", "clean-reply", "error-without-state"] + (["fragmented"] if transport == "fragmented" else [])
                              + (["http-200", "http-470"] if transport == "ip-http" else [])))
    for transport in ("unfiltered", "fragmented"):
        units.append(Unit("verify-M2-resume/%s" % names[transport], resume_unit(C, transport), resume_unit(R, transport), split=True,
                          bounds={"state": "absent or any byte", "error": "absent, any byte, empty, two bytes", "resume items": "valid"},
                          regions=["error-or-wrong-state", "clean-reply"]))
    for which in ("ip", "ble"):
        for op in ("add", "remove"):
            units.append(Unit("%s/%s-pairing" % (which, op), mgmt_unit(C, which, op), mgmt_unit(R, which, op),
                              bounds={"state": "absent or any byte", "error": "absent, any byte, empty, two bytes"},
                              regions=["error-or-wrong-state", "clean-reply"]))
    return units


CANARIES = [
    ("error check dropped", {PROTO: lambda s: s.replace('    if TLV.kTLVType_Error in tlv_dict:\n        error_handler(tlv_dict[TLV.kTLVType_Error], f"step {expected_state}")', "    pass")}, lambda n: n.startswith("verify-M4")),
    ("backoff mapped to busy", {PROTO: lambda s: s.replace("    if error == TLV.kTLVError_Backoff:\n        raise BackoffError(stage)", "    if error == TLV.kTLVError_Backoff:\n        raise BusyError(stage)")}, lambda n: n.startswith("setup-M2")),
    ("state check dropped", {PROTO: lambda s: s.replace("    if actual_state is not None and actual_state != expected_state:", "    if False:")}, lambda n: n.startswith("setup-M6")),
    ("ip remove-pairing ignores errors", {IPP: lambda s: s.replace('            raise UnknownError("Remove pairing failed: unknown error")', "            pass")}, lambda n: n.startswith("ip/remove")),
]

ASSUMPTIONS = [
    "ideal cryptography (DESIGN.md 4.2) is only the environment that lets the generators reach the step under test; on the real library the same scenario is replayed with real SRP/X25519/Ed25519/ChaCha20",
    "State and Error bytes are solver variables (all 256 values each); other fields are present (honest content) or absent by selector; field order State, Error, others",
    "state wrong and error present: any library exception is accepted; state absent + error: the class of the code (the property includes 'a reply that omits the state field'); unknown codes, code 1, empty and two-byte error values: InvalidError",
    "pairing objects built with object.__new__, transport calls stubbed; BLE methods run with their full decorator stack",
]


def main(tier, seed, only=None):
    units = common.filter_units(build(tier), only)
    can = None
    if tier == "thorough" and only is None:
        can = lambda: run_canaries(lambda mut: build("canary", mut), CANARIES, seed)
    return check_property(
        PROP, units, tier, seed,
        explanation="For every protocol step (setup M2/M4/M6, verify M2/M4, add/remove pairing on IP and BLE) the reply's State and "
                    "Error bytes are solver variables and the other fields a symbolic subset; the reply bytes go through the real TLV "
                    "decoder exactly as the transports apply it (with and without the 'expected' filter) into the real generators / "
                    "pairing calls; z3 discharges 'never success' and the HAP table 4-5 exception mapping.",
        assumptions=ASSUMPTIONS, stubs=["crypto -> ideal primitives (environment only)", "connection.post_tlv / _async_request -> scripted reply", "logger -> no-op"],
        bounds={"tier": tier}, canaries=can, design_ref="DESIGN.md section 5, C04")


def replay(doc):
    return common.std_replay(PROP, build("thorough"), doc)
