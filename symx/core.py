"""symx core: replay-based symbolic execution of real Python source.

Values flowing through the code under test are proxies carrying z3 terms (SymInt, SymBool,
SymBytes ropes).  Whenever Python needs a concrete truth value the proxy asks the current
Explorer, which decides feasibility of both outcomes with z3 under the current path
condition, follows one and queues the other (decision-prefix replay).

Soundness conventions
* `Unsupported` and `PathAbort` derive from BaseException so that `except Exception` in the
  code under test cannot swallow them.
* every solver `unknown` raises Unsupported (the run is then inconclusive, never a pass).
* an operation the proxies cannot model exactly raises Unsupported - values are never
  silently realised.  The only realisation is `concretize`, which returns a Python int only
  when the solver proves the value is unique on the current path.
"""
from __future__ import annotations

import builtins as _b
import signal
import time
import traceback

import z3


class Unsupported(BaseException):
    """the engine cannot model this operation exactly -> run is inconclusive"""


class PathAbort(BaseException):
    """cut the current path (assumption violated / infeasible)"""


class PathTimeout(BaseException):
    """a single path (or a concrete replay) ran longer than the watchdog allows - e.g. the code under test loops forever"""


PATH_TIMEOUT_S = 180


def _on_alarm(signum, frame):
    raise PathTimeout()


class watchdog:
    """with watchdog(seconds): ...  (process main thread only; no-op elsewhere)"""

    def __init__(self, seconds=None):
        self.seconds = seconds or PATH_TIMEOUT_S

    def __enter__(self):
        try:
            self.old = signal.signal(signal.SIGALRM, _on_alarm)
            # repeating: code under test that swallows the exception (except BaseException / a finally that keeps looping)
            # is interrupted again every few seconds until the path really ends
            signal.setitimer(signal.ITIMER_REAL, self.seconds, 3)
            self.armed = True
        except ValueError:
            self.armed = False

    def __exit__(self, *a):
        if self.armed:
            signal.setitimer(signal.ITIMER_REAL, 0)
            signal.signal(signal.SIGALRM, self.old)
        return False


CUR: "Explorer | None" = None  # the explorer of the running path


def ex() -> "Explorer":
    if CUR is None:
        raise Unsupported("symbolic value used outside an exploration")
    return CUR


# ------------------------------------------------------------------ explorer
class PathResult:
    __slots__ = ("status", "value", "obligations", "exc", "ndecisions", "inputs", "tags")

    def __init__(self):
        self.status = None  # ok | abort | exc
        self.value = None
        self.obligations = []  # (label, outcome, inputs|None)   outcome: proved|violated
        self.exc = None  # (type name, message, where, inputs)
        self.ndecisions = 0
        self.inputs = None
        self.tags = []


class Explorer:
    def __init__(self, *, max_paths=200000, max_depth=4000, query_timeout_ms=20000, seed=0):
        self.solver = z3.Solver()
        self.query_timeout_ms = query_timeout_ms
        self.seed = seed
        self.max_paths = max_paths
        self.max_depth = max_depth
        self.paths = 0
        self.queries = 0
        self.solver_time = 0.0
        self.hash_attempts = 0
        self.work: list[list[bool]] = [[]]
        self.exported: list[str] = []  # sampled SMT-LIB2 end-of-path queries for the second solver
        self.export_limit = 0
        self._alt_model = None
        self.budget_s = None
        self.results = []
        self._reset_path([])

    # ---- per path state
    def _reset_path(self, prefix):
        self.prefix = prefix
        self.pos = 0
        self.decisions: list[bool] = []
        self.solver.reset()
        self.solver.set("timeout", self.query_timeout_ms)
        self.solver.set("random_seed", self.seed)
        self.model = None
        self.known: dict = {}  # structural key -> bool implied on this path | (None, nadds) undecided
        self._keep = []  # keeps z3 terms alive whose ids are used as keys
        self.nadds = 0
        ATOMS.clear()
        self.fresh = 0
        self.inputs: dict[str, object] = {}
        self.result = PathResult()
        self.scratch = {}  # per-path storage for shims / ideal worlds

    def check(self, *assumptions) -> bool:
        t = time.time()
        r = self.solver.check(*assumptions)
        self.solver_time += time.time() - t
        self.queries += 1
        if r == z3.unknown:
            # one retry with a fresh solver and three times the budget (timeouts under machine load)
            s2 = z3.Solver()
            s2.set("timeout", self.query_timeout_ms * 3)
            s2.add(self.solver.assertions())
            t = time.time()
            r = s2.check(*assumptions)
            self.solver_time += time.time() - t
            self.queries += 1
            if r == z3.unknown:
                raise Unsupported("solver unknown: %s" % s2.reason_unknown())
            self._alt_model = s2.model() if r == z3.sat else None
        else:
            self._alt_model = None
        return r == z3.sat

    def last_model(self):
        """model of the last satisfiable check"""
        return self._alt_model if self._alt_model is not None else self.solver.model()

    def add(self, c):
        if isinstance(c, bool):
            if not c:
                raise PathAbort()
            return
        self.solver.add(c)
        self.nadds += 1
        if self.model is not None:
            try:
                if not z3.is_true(self.model.eval(c, model_completion=True)):
                    self.model = None
            except z3.Z3Exception:
                self.model = None

    def get_model(self):
        if self.model is None:
            if not self.check():
                raise PathAbort()
            self.model = self.last_model()
        return self.model

    def assume(self, cond):
        cond = tobool(cond)
        if isinstance(cond, bool):
            if not cond:
                raise PathAbort()
            return
        v = self.implied(cond)
        if v is True:
            return
        if v is False:
            raise PathAbort()
        self.add(cond.t)
        self.known[cond.key()] = True
        self.known[(~cond).key()] = False

    # ---- deciding terms
    def _norm(self, sb):
        """SymBool (or z3 Bool) -> (python bool | None, SymBool)"""
        if not isinstance(sb, SymBool):
            sb = SymBool(sb)
        if sb.cmp is None:
            t = z3.simplify(sb._t)
            if z3.is_true(t):
                return True, sb
            if z3.is_false(t):
                return False, sb
            sb = SymBool(t)
        return None, sb

    def implied(self, sb):
        """True / False if sb (resp. its negation) is implied by the path condition, else None.
        Never forks."""
        v, sb = self._norm(sb)
        if v is not None:
            return v
        k = sb.key()
        hit = self.known.get(k)
        if hit is not None:
            if hit is True or hit is False:
                return hit
            if hit[1] == self.nadds:
                return None  # undecided, and nothing was added since
        t = sb.t
        m = self.get_model()
        mv = z3.is_true(m.eval(t, model_completion=True))
        # the model shows `mv` is feasible; is the other side feasible too?
        if self.check(z3.Not(t) if mv else t):
            self.known[k] = (None, self.nadds)
            return None
        self.known[k] = mv
        self.known[(~sb).key()] = not mv
        self._keep.append(t)
        return mv

    def provable(self, sb) -> bool:
        return self.implied(sb) is True

    def branch(self, sb) -> bool:
        """python bool for a SymBool, forking when both outcomes are feasible"""
        v, sb = self._norm(sb)
        if v is not None:
            return v
        k = sb.key()
        hit = self.known.get(k)
        if hit is True or hit is False:
            return hit
        t = sb.t
        if self.pos < len(self.prefix):
            d = self.prefix[self.pos]
            self.pos += 1
        else:
            if len(self.decisions) >= self.max_depth:
                raise Unsupported("max depth %d reached" % self.max_depth)
            m = self.get_model()
            mv = z3.is_true(m.eval(t, model_completion=True))
            if hit is not None and hit[1] == self.nadds:
                # already known to be undecided under the current path condition
                self.work.append(self.decisions + [False])
                d = True
                self.model = m if mv else None
            elif self.check(z3.Not(t) if mv else t):
                other_model = self.last_model()
                self.work.append(self.decisions + [False])
                d = True
                self.model = m if mv else other_model
            else:
                d = mv
            self.pos = len(self.decisions) + 1
            self.prefix = self.decisions
        self.decisions.append(d)
        self.add(t if d else z3.Not(t))
        self.known[k] = d
        self.known[(~sb).key()] = not d
        self._keep.append(t)
        return d

    # ---- inputs
    def fresh_name(self, base):
        self.fresh += 1
        return "%s!%d" % (base, self.fresh)

    def fresh_int(self, name, lo=None, hi=None):
        v = z3.Int(name)
        if lo is not None:
            self.add(v >= lo)
        if hi is not None:
            self.add(v <= hi)
        s = SymInt(v)
        self.inputs[name] = ("int", v)
        return s

    def fresh_bool(self, name):
        return self.fresh_int(name, 0, 1) == 1

    def choice(self, name, options):
        """symbolic selector over a concrete list: returns one element per path"""
        options = list(options)
        s = self.fresh_int(name, 0, len(options) - 1)
        lo, hi = 0, len(options) - 1
        while lo < hi:  # balanced decisions: subtrees of equal size split well over the process pool
            mid = (lo + hi) // 2
            if s <= mid:
                hi = mid
            else:
                lo = mid + 1
        return options[lo]

    def fresh_bytes(self, name, lo, hi=None, opaque=False):
        """arbitrary byte string; opaque=True: content is never inspected byte-wise against
        itself (a window of it equals only the same window - content-independence)"""
        from .rope import SymBytes, Seg
        if hi is None:
            hi = lo
        arr = z3.Array(("opq!" if opaque else "") + name, z3.IntSort(), z3.IntSort())
        if lo == hi:
            n = lo
            self.inputs[name] = ("bytes", arr, n)
        else:
            n = self.fresh_int(name + "_len", lo, hi)
            del self.inputs[name + "_len"]
            self.inputs[name] = ("bytes", arr, n.t)
        return SymBytes([Seg(arr, 0, n)])

    def model_inputs(self, model=None):
        """concrete values of all named inputs under a model of the current path"""
        m = model or self.get_model()
        out = {}
        for name, spec in self.inputs.items():
            if spec[0] == "int":
                out[name] = m.eval(spec[1], model_completion=True).as_long()
            else:
                n = spec[2]
                if not isinstance(n, int):
                    n = m.eval(n, model_completion=True).as_long()
                out[name] = _b.bytes(
                    m.eval(z3.Select(spec[1], i), model_completion=True).as_long() % 256 for i in range(n)
                )
        return out

    # ---- obligations
    def require(self, cond, label):
        """proof obligation: cond must hold for every input on this path"""
        cond = tobool(cond)
        if isinstance(cond, bool):
            if cond:
                self.result.obligations.append((label, "proved", None))
                return True
            self.result.obligations.append((label, "violated", self.model_inputs()))
            return False
        v, cond = self._norm(cond)
        if v is None:
            hit = self.known.get(cond.key())
            if hit is True or hit is False:
                v = hit
        if v is None:
            neg = z3.Not(cond.t)
            if self.export_limit and len(self.exported) < self.export_limit:
                self.exported.append(self.solver.to_smt2().replace("(check-sat)", "") + "(assert %s)\n(check-sat)\n" % neg.sexpr())
            if self.check(neg):
                self.result.obligations.append((label, "violated", self.model_inputs(self.last_model())))
                return False
            self.known[cond.key()] = True
            self._keep.append(cond.t)
            v = True
        if v:
            self.result.obligations.append((label, "proved", None))
            return True
        self.result.obligations.append((label, "violated", self.model_inputs()))
        return False

    def tag(self, name):
        """named region witness: this path reached `name`"""
        self.result.tags.append(name)

    # ---- driving
    def run_path(self, fn, prefix):
        global CUR
        self._reset_path(prefix)
        CUR = self
        self.paths += 1
        res = self.result
        try:
            with watchdog():
                res.value = fn(self)
            res.status = "ok"
        except PathAbort:
            res.status = "abort"
        except Unsupported as e:
            # this path cannot be finished symbolically: remember it (the run is inconclusive) but keep exploring;
            # a model of its prefix is still replayed on the real library by the runner
            if "max depth" in _b.str(e):
                raise
            res.status = "unsupported"
            tb = traceback.extract_tb(e.__traceback__)
            try:
                inputs = self.model_inputs()
            except BaseException:
                inputs = None
            res.exc = ("Unsupported", _b.str(e)[:300], "%s:%d" % (tb[-1].filename, tb[-1].lineno) if tb else "?", inputs)
        except PathTimeout:
            raise Unsupported("a single path ran longer than %d s (the code under test may loop forever on this input class); decisions so far: %d"
                              % (PATH_TIMEOUT_S, len(self.decisions)))
        except Exception as e:  # an exception escaping the harness: candidate finding
            res.status = "exc"
            tb = traceback.extract_tb(e.__traceback__)
            where = "%s:%d" % (tb[-1].filename, tb[-1].lineno) if tb else "?"
            try:
                inputs = self.model_inputs()
            except PathAbort:
                inputs = None
            res.exc = (type(e).__name__, _b.str(e)[:200], where, inputs)
        finally:
            CUR = None
        res.ndecisions = len(self.decisions)
        return res

    def explore(self, fn, prefixes=None, stop_when_queued=None, yield_after_s=None):
        """exploration of the path tree; returns list of PathResult.
        Default order is depth-first.  With stop_when_queued the order is breadth-first (shallowest
        prefix first) and exploration stops once that many prefixes are queued - the remaining work
        (self.work) is then distributed over a process pool."""
        if prefixes is not None:
            self.work = [list(p) for p in prefixes]
        results = self.results = []  # kept on the explorer so that partial results survive an abort
        t0 = time.time()
        while self.work:
            if stop_when_queued is not None and len(self.work) >= stop_when_queued:
                break
            if yield_after_s is not None and results and time.time() - t0 > yield_after_s:
                break  # the rest of this subtree (self.work) goes back to the pool
            prefix = self.work.pop(0) if stop_when_queued is not None else self.work.pop()
            if self.paths >= self.max_paths:
                raise Unsupported("max paths %d reached" % self.max_paths)
            if self.budget_s is not None and time.time() - t0 > self.budget_s:
                raise Unsupported("time budget %ds of this exploration task exhausted" % self.budget_s)
            results.append(self.run_path(fn, prefix))
        return results


# ------------------------------------------------------------------ scalars
# SymInt is an affine form  k + sum(coef_i * atom_i)  kept in pure Python; atoms are z3 Int
# terms (inputs, array reads, div/mod/ite results ...).  z3 terms are only built when the
# solver is really asked, and branch decisions are cached per path by structural key.
ATOMS: dict = {}  # atom id -> z3 Int term (cleared at the start of every path)


def _atom(t):
    i = t.get_id()
    ATOMS[i] = t
    return i


def _lin_combine(a, b, sb):
    """a + sb*b for sorted tuples of (atom id, coef)"""
    if not b:
        return a
    out = []
    i = j = 0
    la, lb = len(a), len(b)
    while i < la and j < lb:
        x, y = a[i], b[j]
        if x[0] == y[0]:
            c = x[1] + sb * y[1]
            if c:
                out.append((x[0], c))
            i += 1
            j += 1
        elif x[0] < y[0]:
            out.append(x)
            i += 1
        else:
            out.append((y[0], sb * y[1]))
            j += 1
    out.extend(a[i:])
    for y in b[j:]:
        out.append((y[0], sb * y[1]))
    return tuple(out)


def _mk(lin, k, src=None):
    if not lin:
        return k
    r = SymInt.__new__(SymInt)
    r.lin, r.k, r._t, r.src = lin, k, None, src
    return r


def _lin_term(lin):
    terms = [ATOMS[i] if c == 1 else ATOMS[i] * c for i, c in lin]
    return terms[0] if len(terms) == 1 else z3.Sum(terms)


def toz(x):
    if isinstance(x, SymInt):
        return x.t
    if isinstance(x, SymBool):
        return z3.If(x.t, z3.IntVal(1), z3.IntVal(0))
    if isinstance(x, bool):
        return z3.IntVal(int(x))
    if isinstance(x, int):
        return z3.IntVal(x)
    if z3.is_expr(x):
        return x
    raise Unsupported("toz(%s)" % type(x).__name__)


def tobool(x):
    if isinstance(x, (SymBool, bool)):
        return x
    if z3.is_expr(x) and z3.is_bool(x):
        return SymBool(x)
    return _b.bool(x)


class SymBool:
    """either a lazy comparison  (lin + k <= 0) / (lin + k == 0) [negated]  or a z3 Bool term"""
    __slots__ = ("_t", "cmp")

    def __init__(self, t=None, cmp=None):
        self._t = t
        self.cmp = cmp  # (op, lin, k, neg)   op in {"le", "eq"}

    @property
    def t(self):
        if self._t is None:
            op, lin, k, neg = self.cmp
            lhs = _lin_term(lin)
            t = (lhs <= -k) if op == "le" else (lhs == -k)
            self._t = z3.Not(t) if neg else t
        return self._t

    def key(self):
        if self.cmp is not None:
            return self.cmp
        return ("z", self._t.get_id())

    def __bool__(self):
        return ex().branch(self)

    def _o(self, o):
        o = tobool(o)
        return z3.BoolVal(o) if isinstance(o, bool) else o.t

    def __and__(self, o):
        if o is True:
            return self
        if o is False:
            return False
        return SymBool(z3.And(self.t, self._o(o)))

    __rand__ = __and__

    def __or__(self, o):
        if o is False:
            return self
        if o is True:
            return True
        return SymBool(z3.Or(self.t, self._o(o)))

    __ror__ = __or__

    def __invert__(self):
        if self.cmp is not None:
            op, lin, k, neg = self.cmp
            if op == "le":  # not(d <= 0)  <=>  -d + 1 <= 0
                return SymBool(cmp=("le", tuple((i, -c) for i, c in lin), 1 - k, False))
            return SymBool(cmp=(op, lin, k, not neg))
        return SymBool(z3.Not(self._t))

    def __eq__(self, o):
        if isinstance(o, (SymBool, bool)):
            return SymBool(self.t == self._o(o))
        if isinstance(o, (int, SymInt)):
            return SymInt(toz(self)) == o
        return NotImplemented

    def __ne__(self, o):
        r = self.__eq__(o)
        return r if r is NotImplemented else (~r if isinstance(r, SymBool) else not r)

    def __hash__(self):
        ex().hash_attempts += 1
        raise TypeError("unhashable type: 'SymBool'")

    def __int__(self):
        return 1 if _b.bool(self) else 0

    __index__ = __int__

    def __repr__(self):
        return "<symbool>"


def _le0(d):
    """d <= 0 for an affine d"""
    if isinstance(d, int):
        return d <= 0
    return SymBool(cmp=("le", d.lin, d.k, False))


def _eq0(d):
    if isinstance(d, int):
        return d == 0
    lin, k = d.lin, d.k
    if lin[0][1] < 0:
        lin, k = tuple((i, -c) for i, c in lin), -k
    return SymBool(cmp=("eq", lin, k, False))


def _num(o):
    """int / SymInt view of an operand, or None"""
    if isinstance(o, SymInt):
        return o
    if isinstance(o, bool):
        return int(o)
    if isinstance(o, int):
        return o
    if isinstance(o, SymBool):
        return SymInt(toz(o))
    return None


def _mask_runs(m):
    """contiguous runs of set bits of a non-negative int: [(lo, width)]"""
    runs = []
    i = 0
    while m >> i:
        if (m >> i) & 1:
            j = i
            while (m >> j) & 1:
                j += 1
            runs.append((i, j - i))
            i = j
        else:
            i += 1
    return runs


class SymInt:
    __slots__ = ("lin", "k", "_t", "src")

    def __init__(self, t, src=None):
        """from a z3 Int term (becomes one atom)"""
        self.src = src  # (array, index) when this value is a byte read from a rope
        if z3.is_int_value(t):
            raise Unsupported("SymInt of a numeral - use a python int")
        self._t = t
        self.lin = ((_atom(t), 1),)
        self.k = 0

    @property
    def t(self):
        if self._t is None:
            t = _lin_term(self.lin)
            self._t = t + self.k if self.k else t
        return self._t

    # ---- comparisons
    def __lt__(self, o):
        o = _num(o)
        return NotImplemented if o is None else _le0(self - o + 1)

    def __le__(self, o):
        o = _num(o)
        return NotImplemented if o is None else _le0(self - o)

    def __gt__(self, o):
        o = _num(o)
        return NotImplemented if o is None else _le0(o - self + 1)

    def __ge__(self, o):
        o = _num(o)
        return NotImplemented if o is None else _le0(o - self)

    def __eq__(self, o):
        o = _num(o)
        return NotImplemented if o is None else _eq0(self - o)

    def __ne__(self, o):
        o = _num(o)
        if o is None:
            return NotImplemented
        r = _eq0(self - o)
        return (not r) if isinstance(r, bool) else ~r

    def __hash__(self):
        ex().hash_attempts += 1
        raise TypeError("unhashable type: 'SymInt'")

    # ---- affine arithmetic
    def __add__(self, o):
        o = _num(o)
        if o is None:
            return NotImplemented
        if isinstance(o, int):
            return self if o == 0 else _mk(self.lin, self.k + o)
        return _mk(_lin_combine(self.lin, o.lin, 1), self.k + o.k)

    __radd__ = __add__

    def __sub__(self, o):
        o = _num(o)
        if o is None:
            return NotImplemented
        if isinstance(o, int):
            return self if o == 0 else _mk(self.lin, self.k - o)
        return _mk(_lin_combine(self.lin, o.lin, -1), self.k - o.k)

    def __rsub__(self, o):
        o = _num(o)
        if o is None:
            return NotImplemented
        return (-self) + o

    def __neg__(self):
        return _mk(tuple((i, -c) for i, c in self.lin), -self.k)

    def __pos__(self):
        return self

    def __mul__(self, o):
        o = _num(o)
        if o is None:
            return NotImplemented
        if isinstance(o, int):
            if o == 0:
                return 0
            return _mk(tuple((i, c * o) for i, c in self.lin), self.k * o)
        return SymInt(self.t * o.t)

    __rmul__ = __mul__

    def __abs__(self):
        return SymInt(z3.If(self.t >= 0, self.t, -self.t))

    def __invert__(self):
        return -self - 1

    def _posconst(self, o, what):
        if isinstance(o, SymInt):
            o = concretize(o)
        if not isinstance(o, int) or isinstance(o, bool) or o <= 0:
            raise Unsupported("%s by a non-constant or non-positive value" % what)
        return o

    def __floordiv__(self, o):
        c = self._posconst(o, "//")
        if c == 1:
            return self
        if self.k % c == 0 and _b.all(co % c == 0 for _, co in self.lin):
            return _mk(tuple((i, co // c) for i, co in self.lin), self.k // c)
        return SymInt(self.t / c)

    def __mod__(self, o):
        c = self._posconst(o, "%")
        if c == 1:
            return 0
        if _b.all(co % c == 0 for _, co in self.lin):
            return self.k % c
        return SymInt(self.t % c)

    def __divmod__(self, o):
        return (self // o, self % o)

    def __rfloordiv__(self, o):
        raise Unsupported("division by a symbolic value")

    __rmod__ = __rtruediv__ = __rfloordiv__

    def __truediv__(self, o):
        raise Unsupported("true division of a symbolic int (float result)")

    def __pow__(self, o, mod=None):
        if isinstance(o, int) and 0 <= o <= 8 and mod is None:
            r = 1
            for _ in range(o):
                r = r * self
            return r
        raise Unsupported("pow on a symbolic int")

    def __lshift__(self, o):
        if isinstance(o, int) and o >= 0:
            return self * (1 << o)
        raise Unsupported("<< by symbolic amount")

    def __rshift__(self, o):
        if isinstance(o, int) and o >= 0:
            return self // (1 << o)
        raise Unsupported(">> by symbolic amount")

    def __and__(self, o):
        if isinstance(o, SymInt):
            o = concretize(o)
        if not isinstance(o, int) or o < 0:
            raise Unsupported("& with a symbolic or negative mask")
        r = 0
        for lo, w in _mask_runs(o):
            r = r + ((self // (1 << lo)) % (1 << w)) * (1 << lo)
        return r

    __rand__ = __and__

    def __or__(self, o):
        return self + o - (self & o)

    __ror__ = __or__

    def __xor__(self, o):
        return (self | o) - (self & o)

    __rxor__ = __xor__

    def __bool__(self):
        return ex().branch(self != 0)

    def __index__(self):
        v = concretize(self)
        if isinstance(v, int):
            return v
        raise Unsupported("__index__ on a symbolic int that is not unique on this path")

    __int__ = __index__

    def __float__(self):
        raise Unsupported("float() of a symbolic int")

    def __format__(self, spec):
        return "<sym>"

    def __str__(self):
        return "<sym>"

    __repr__ = __str__

    def bit_length(self):
        raise Unsupported("bit_length of a symbolic int")

    def to_bytes(self, length=1, byteorder="big", *, signed=False):
        from .rope import int_to_rope
        return int_to_rope(self, length, byteorder, signed)


def simp(x):
    """kept for readability at call sites: affine forms are always normalised"""
    return x


def concretize(x):
    """python int if the value is unique on the current path (solver-proved), else x"""
    if not isinstance(x, SymInt):
        return x
    e = ex()
    key = ("val", x.lin, x.k)
    hit = e.known.get(key)
    if hit is not None:
        if hit[0] == "v":
            return hit[1]
        if hit[1] == e.nadds:
            return x
    m = e.get_model()
    v = m.eval(x.t, model_completion=True)
    if z3.is_int_value(v):
        v = v.as_long()
        if e.provable(x == v):
            e.known[key] = ("v", v)
            return v
    e.known[key] = (None, e.nadds)
    return x


def provable(cond) -> bool:
    cond = tobool(cond)
    if isinstance(cond, bool):
        return cond
    return ex().provable(cond)


def decide(cond) -> bool:
    """python bool for cond, forking if undecided (same as bool(cond))"""
    if cond is True or cond is False:
        return cond
    cond = tobool(cond)
    if isinstance(cond, bool):
        return cond
    return ex().branch(cond)


def ite(c, a, b):
    c = tobool(c)
    if isinstance(c, bool):
        return a if c else b
    return SymInt(z3.If(c.t, toz(a), toz(b)))


def is_sym(x):
    from .rope import SymBytes, SymStr
    return isinstance(x, (SymInt, SymBool, SymBytes, SymStr))
