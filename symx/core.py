"""symx core: replay-based symbolic execution of real Python source.

Values flowing through the code under test are proxies carrying z3 terms (SymInt, SymBool,
SymBytes ropes).  Whenever Python needs a concrete truth value the proxy asks the current
Explorer, which decides feasibility of both outcomes with z3 under the current path
condition, follows one and queues the other (decision-prefix replay).

Soundness conventions
* `Unsupported` and `PathAbort` derive from BaseException so that `except Exception` in the
  code under test cannot swallow them.
* every solver `unknown` raises Unsupported (the run is then inconclusive, never a pass).
* an operation the proxies cannot model exactly raises Unsupported - values are never
  silently realised.  The only realisation is `concretize`, which returns a Python int only
  when the solver proves the value is unique on the current path.
"""
from __future__ import annotations

import builtins as _b
import time
import traceback

import z3


class Unsupported(BaseException):
    """the engine cannot model this operation exactly -> run is inconclusive"""


class PathAbort(BaseException):
    """cut the current path (assumption violated / infeasible)"""


CUR: "Explorer | None" = None  # the explorer of the running path


def ex() -> "Explorer":
    if CUR is None:
        raise Unsupported("symbolic value used outside an exploration")
    return CUR


# ------------------------------------------------------------------ explorer
class PathResult:
    __slots__ = ("status", "value", "obligations", "exc", "ndecisions", "inputs", "tags")

    def __init__(self):
        self.status = None  # ok | abort | exc
        self.value = None
        self.obligations = []  # (label, outcome, inputs|None)   outcome: proved|violated
        self.exc = None  # (type name, message, where, inputs)
        self.ndecisions = 0
        self.inputs = None
        self.tags = []


class Explorer:
    def __init__(self, *, max_paths=200000, max_depth=4000, query_timeout_ms=20000, seed=0):
        self.solver = z3.Solver()
        self.query_timeout_ms = query_timeout_ms
        self.seed = seed
        self.max_paths = max_paths
        self.max_depth = max_depth
        self.paths = 0
        self.queries = 0
        self.solver_time = 0.0
        self.hash_attempts = 0
        self.work: list[list[bool]] = [[]]
        self.exported: list[str] = []  # sampled SMT-LIB2 end-of-path queries for the second solver
        self.export_limit = 0
        self._reset_path([])

    # ---- per path state
    def _reset_path(self, prefix):
        self.prefix = prefix
        self.pos = 0
        self.decisions: list[bool] = []
        self.solver.reset()
        self.solver.set("timeout", self.query_timeout_ms)
        self.solver.set("random_seed", self.seed)
        self.model = None
        self.known: dict[int, tuple] = {}  # term id -> (term, bool) implied on this path
        self.fresh = 0
        self.inputs: dict[str, object] = {}
        self.result = PathResult()
        self.scratch = {}  # per-path storage for shims / ideal worlds

    def check(self, *assumptions) -> bool:
        t = time.time()
        r = self.solver.check(*assumptions)
        self.solver_time += time.time() - t
        self.queries += 1
        if r == z3.unknown:
            raise Unsupported("solver unknown: %s" % self.solver.reason_unknown())
        return r == z3.sat

    def add(self, c):
        if isinstance(c, bool):
            if not c:
                raise PathAbort()
            return
        self.solver.add(c)
        if self.model is not None:
            try:
                if not z3.is_true(self.model.eval(c, model_completion=True)):
                    self.model = None
            except z3.Z3Exception:
                self.model = None

    def get_model(self):
        if self.model is None:
            if not self.check():
                raise PathAbort()
            self.model = self.solver.model()
        return self.model

    def assume(self, cond):
        cond = tobool(cond)
        if isinstance(cond, bool):
            if not cond:
                raise PathAbort()
            return
        t = z3.simplify(cond.t)
        if z3.is_true(t):
            return
        if z3.is_false(t):
            raise PathAbort()
        self.add(t)
        if self.model is None and not self.check():
            raise PathAbort()

    # ---- deciding terms
    def implied(self, t):
        """True / False if t (resp. Not t) is implied by the path condition, else None.
        Never forks."""
        t = z3.simplify(t)
        if z3.is_true(t):
            return True
        if z3.is_false(t):
            return False
        k = t.get_id()
        hit = self.known.get(k)
        if hit is not None:
            return hit[1]
        m = self.get_model()
        mv = z3.is_true(m.eval(t, model_completion=True))
        # the model shows `mv` is feasible; is the other side feasible too?
        other = z3.Not(t) if mv else t
        if self.check(other):
            return None
        self.known[k] = (t, mv)
        return mv

    def provable(self, t) -> bool:
        return self.implied(t) is True

    def branch(self, t) -> bool:
        """python bool for z3 Bool t, forking when both outcomes are feasible"""
        t = z3.simplify(t)
        if z3.is_true(t):
            return True
        if z3.is_false(t):
            return False
        k = t.get_id()
        hit = self.known.get(k)
        if hit is not None:
            return hit[1]
        if self.pos < len(self.prefix):
            d = self.prefix[self.pos]
            self.pos += 1
            self.decisions.append(d)
            self.add(t if d else z3.Not(t))
            self.known[k] = (t, d)
            return d
        if len(self.decisions) >= self.max_depth:
            raise Unsupported("max depth %d reached" % self.max_depth)
        m = self.get_model()
        mv = z3.is_true(m.eval(t, model_completion=True))
        other = z3.Not(t) if mv else t
        other_model = None
        if self.check(other):
            other_model = self.solver.model()
        if other_model is not None:
            self.work.append(self.decisions + [False])
            d = True
            self.model = m if mv else other_model
        else:
            d = mv
        self.decisions.append(d)
        self.pos = len(self.decisions)
        self.prefix = self.decisions
        self.add(t if d else z3.Not(t))
        self.known[k] = (t, d)
        return d

    # ---- inputs
    def fresh_name(self, base):
        self.fresh += 1
        return "%s!%d" % (base, self.fresh)

    def fresh_int(self, name, lo=None, hi=None):
        v = z3.Int(name)
        if lo is not None:
            self.add(v >= lo)
        if hi is not None:
            self.add(v <= hi)
        s = SymInt(v)
        self.inputs[name] = ("int", v)
        return s

    def fresh_bool(self, name):
        return self.fresh_int(name, 0, 1) == 1

    def choice(self, name, options):
        """symbolic selector over a concrete list: returns one element per path"""
        options = list(options)
        s = self.fresh_int(name, 0, len(options) - 1)
        for i, o in enumerate(options[:-1]):
            if s == i:
                return o
        return options[-1]

    def fresh_bytes(self, name, lo, hi=None, opaque=False):
        """arbitrary byte string; opaque=True: content is never inspected byte-wise against
        itself (a window of it equals only the same window - content-independence)"""
        from .rope import SymBytes, Seg
        if hi is None:
            hi = lo
        arr = z3.Array(("opq!" if opaque else "") + name, z3.IntSort(), z3.IntSort())
        if lo == hi:
            n = lo
            self.inputs[name] = ("bytes", arr, n)
        else:
            n = self.fresh_int(name + "_len", lo, hi)
            del self.inputs[name + "_len"]
            self.inputs[name] = ("bytes", arr, n.t)
        return SymBytes([Seg(arr, 0, n)])

    def model_inputs(self, model=None):
        """concrete values of all named inputs under a model of the current path"""
        m = model or self.get_model()
        out = {}
        for name, spec in self.inputs.items():
            if spec[0] == "int":
                out[name] = m.eval(spec[1], model_completion=True).as_long()
            else:
                n = spec[2]
                if not isinstance(n, int):
                    n = m.eval(n, model_completion=True).as_long()
                out[name] = _b.bytes(
                    m.eval(z3.Select(spec[1], i), model_completion=True).as_long() % 256 for i in range(n)
                )
        return out

    # ---- obligations
    def require(self, cond, label):
        """proof obligation: cond must hold for every input on this path"""
        cond = tobool(cond)
        if isinstance(cond, bool):
            if cond:
                self.result.obligations.append((label, "proved", None))
                return True
            self.result.obligations.append((label, "violated", self.model_inputs()))
            return False
        t = z3.simplify(cond.t)
        neg = z3.Not(t)
        if self.export_limit and len(self.exported) < self.export_limit:
            self.exported.append(self.solver.to_smt2().replace("(check-sat)", "") + "(assert %s)\n(check-sat)\n" % neg.sexpr())
        if self.check(neg):
            self.result.obligations.append((label, "violated", self.model_inputs(self.solver.model())))
            return False
        self.result.obligations.append((label, "proved", None))
        return True

    def tag(self, name):
        """named region witness: this path reached `name`"""
        self.result.tags.append(name)

    # ---- driving
    def run_path(self, fn, prefix):
        global CUR
        self._reset_path(prefix)
        CUR = self
        self.paths += 1
        res = self.result
        try:
            res.value = fn(self)
            res.status = "ok"
        except PathAbort:
            res.status = "abort"
        except Unsupported:
            raise
        except Exception as e:  # an exception escaping the harness: candidate finding
            res.status = "exc"
            tb = traceback.extract_tb(e.__traceback__)
            where = "%s:%d" % (tb[-1].filename, tb[-1].lineno) if tb else "?"
            try:
                inputs = self.model_inputs()
            except PathAbort:
                inputs = None
            res.exc = (type(e).__name__, _b.str(e)[:200], where, inputs)
        finally:
            CUR = None
        res.ndecisions = len(self.decisions)
        return res

    def explore(self, fn, prefixes=None, stop_when_queued=None):
        """depth-first exploration; returns list of PathResult.
        stop_when_queued: stop early (returning the remaining work in self.work) once that many
        prefixes are queued - used to seed a process pool."""
        if prefixes is not None:
            self.work = [list(p) for p in prefixes]
        results = []
        while self.work:
            if stop_when_queued is not None and len(self.work) >= stop_when_queued:
                break
            prefix = self.work.pop()
            if self.paths >= self.max_paths:
                raise Unsupported("max paths %d reached" % self.max_paths)
            results.append(self.run_path(fn, prefix))
        return results


# ------------------------------------------------------------------ scalars
def toz(x):
    if isinstance(x, SymInt):
        return x.t
    if isinstance(x, SymBool):
        return z3.If(x.t, z3.IntVal(1), z3.IntVal(0))
    if isinstance(x, bool):
        return z3.IntVal(int(x))
    if isinstance(x, int):
        return z3.IntVal(x)
    if z3.is_expr(x):
        return x
    raise Unsupported("toz(%s)" % type(x).__name__)


def tobool(x):
    if isinstance(x, (SymBool, bool)):
        return x
    if z3.is_expr(x) and z3.is_bool(x):
        return SymBool(x)
    return _b.bool(x)


class SymBool:
    __slots__ = ("t",)

    def __init__(self, t):
        self.t = t

    def __bool__(self):
        return ex().branch(self.t)

    def _o(self, o):
        o = tobool(o)
        return z3.BoolVal(o) if isinstance(o, bool) else o.t

    def __and__(self, o):
        return SymBool(z3.And(self.t, self._o(o)))

    __rand__ = __and__

    def __or__(self, o):
        return SymBool(z3.Or(self.t, self._o(o)))

    __ror__ = __or__

    def __invert__(self):
        return SymBool(z3.Not(self.t))

    def __eq__(self, o):
        if isinstance(o, (SymBool, bool)):
            return SymBool(self.t == self._o(o))
        if isinstance(o, (int, SymInt)):
            return SymBool(toz(self) == toz(o))
        return NotImplemented

    def __ne__(self, o):
        r = self.__eq__(o)
        return r if r is NotImplemented else SymBool(z3.Not(r.t))

    def __hash__(self):
        ex().hash_attempts += 1
        raise TypeError("unhashable type: 'SymBool'")

    def __int__(self):
        return 1 if _b.bool(self) else 0

    __index__ = __int__

    def __repr__(self):
        return "<symbool>"


def _cmp(op):
    def f(self, o):
        if isinstance(o, SymBool):
            o = SymInt(toz(o))
        if not isinstance(o, (int, SymInt)):
            return NotImplemented
        r = z3.simplify(op(self.t, toz(o)))
        if z3.is_true(r):
            return True
        if z3.is_false(r):
            return False
        return SymBool(r)

    return f


def _mask_runs(m):
    """contiguous runs of set bits of a non-negative int: [(lo, width)]"""
    runs = []
    i = 0
    while m >> i:
        if (m >> i) & 1:
            j = i
            while (m >> j) & 1:
                j += 1
            runs.append((i, j - i))
            i = j
        else:
            i += 1
    return runs


class SymInt:
    __slots__ = ("t", "src")

    def __init__(self, t, src=None):
        self.t = t
        self.src = src  # (array, index term) when this value is a byte read from a rope

    __lt__ = _cmp(lambda a, b: a < b)
    __le__ = _cmp(lambda a, b: a <= b)
    __gt__ = _cmp(lambda a, b: a > b)
    __ge__ = _cmp(lambda a, b: a >= b)
    __eq__ = _cmp(lambda a, b: a == b)
    __ne__ = _cmp(lambda a, b: a != b)

    def __hash__(self):
        ex().hash_attempts += 1
        raise TypeError("unhashable type: 'SymInt'")

    def _num(self, o):
        if isinstance(o, (int, SymInt, SymBool)) and not isinstance(o, float):
            return toz(o)
        return None

    def __add__(self, o):
        z = self._num(o)
        return NotImplemented if z is None else simp(SymInt(self.t + z))

    __radd__ = __add__

    def __sub__(self, o):
        z = self._num(o)
        return NotImplemented if z is None else simp(SymInt(self.t - z))

    def __rsub__(self, o):
        z = self._num(o)
        return NotImplemented if z is None else simp(SymInt(z - self.t))

    def __mul__(self, o):
        z = self._num(o)
        return NotImplemented if z is None else simp(SymInt(self.t * z))

    __rmul__ = __mul__

    def __neg__(self):
        return simp(SymInt(-self.t))

    def __pos__(self):
        return self

    def __abs__(self):
        return simp(SymInt(z3.If(self.t >= 0, self.t, -self.t)))

    def __invert__(self):
        return simp(SymInt(-self.t - 1))

    def _posconst(self, o, what):
        if isinstance(o, SymInt):
            o = concretize(o)
        if not isinstance(o, int) or isinstance(o, bool) or o <= 0:
            raise Unsupported("%s by a non-constant or non-positive value" % what)
        return o

    def __floordiv__(self, o):
        return simp(SymInt(self.t / self._posconst(o, "//")))

    def __mod__(self, o):
        return simp(SymInt(self.t % self._posconst(o, "%")))

    def __divmod__(self, o):
        return (self // o, self % o)

    def __rfloordiv__(self, o):
        raise Unsupported("division by a symbolic value")

    __rmod__ = __rtruediv__ = __rfloordiv__

    def __truediv__(self, o):
        raise Unsupported("true division of a symbolic int (float result)")

    def __pow__(self, o, mod=None):
        if isinstance(o, int) and 0 <= o <= 8 and mod is None:
            r = 1
            for _ in range(o):
                r = r * self
            return r
        raise Unsupported("pow on a symbolic int")

    def __lshift__(self, o):
        if isinstance(o, int) and o >= 0:
            return simp(SymInt(self.t * (1 << o)))
        raise Unsupported("<< by symbolic amount")

    def __rshift__(self, o):
        if isinstance(o, int) and o >= 0:
            return simp(SymInt(self.t / (1 << o)))
        raise Unsupported(">> by symbolic amount")

    def __and__(self, o):
        if isinstance(o, SymInt):
            o = concretize(o)
        if not isinstance(o, int) or o < 0:
            raise Unsupported("& with a symbolic or negative mask")
        r = z3.IntVal(0)
        for lo, w in _mask_runs(o):
            r = r + ((self.t / (1 << lo)) % (1 << w)) * (1 << lo)
        return simp(SymInt(r))

    __rand__ = __and__

    def __or__(self, o):
        return self + o - (self & o)

    __ror__ = __or__

    def __xor__(self, o):
        return (self | o) - (self & o)

    __rxor__ = __xor__

    def __bool__(self):
        return ex().branch(self.t != 0)

    def __index__(self):
        v = concretize(self)
        if isinstance(v, int):
            return v
        raise Unsupported("__index__ on a symbolic int that is not unique on this path")

    __int__ = __index__

    def __float__(self):
        raise Unsupported("float() of a symbolic int")

    def __format__(self, spec):
        return "<sym>"

    def __str__(self):
        return "<sym>"

    __repr__ = __str__

    def bit_length(self):
        raise Unsupported("bit_length of a symbolic int")

    def to_bytes(self, length=1, byteorder="big", *, signed=False):
        from .rope import int_to_rope
        return int_to_rope(self, length, byteorder, signed)


def simp(x):
    """syntactic simplification; returns a python int when the term is a numeral"""
    if isinstance(x, SymInt):
        s = z3.simplify(x.t)
        if z3.is_int_value(s):
            return s.as_long()
        if s is not x.t:
            return SymInt(s, x.src)
        return x
    return x


def concretize(x):
    """python int if the value is unique on the current path (solver-proved), else x"""
    x = simp(x)
    if not isinstance(x, SymInt):
        return x
    e = ex()
    m = e.get_model()
    v = m.eval(x.t, model_completion=True)
    if not z3.is_int_value(v):
        return x
    v = v.as_long()
    return v if e.provable(x.t == v) else x


def provable(cond) -> bool:
    cond = tobool(cond)
    if isinstance(cond, bool):
        return cond
    return ex().provable(cond.t)


def decide(cond) -> bool:
    """python bool for cond, forking if undecided (same as bool(cond))"""
    cond = tobool(cond)
    if isinstance(cond, bool):
        return cond
    return ex().branch(cond.t)


def ite(c, a, b):
    c = tobool(c)
    if isinstance(c, bool):
        return a if c else b
    return simp(SymInt(z3.If(c.t, toz(a), toz(b))))


def is_sym(x):
    from .rope import SymBytes, SymStr
    return isinstance(x, (SymInt, SymBool, SymBytes, SymStr))
