"""Running harness units: exploration (process pool, prefix splitting), model-based
differential against the real library, replay of counterexamples, known findings,
evidence files, exit codes (0 held / 1 violation / 2 inconclusive or harness error)."""
from __future__ import annotations

import builtins as _b
import hashlib
import json
import multiprocessing as mp
import os
import random
import subprocess
import sys
import time
import traceback

import z3

from . import core, loader
from .core import Explorer, PathAbort, SymBool, SymInt, Unsupported
from .rope import IntSeg, SymBytes, SymStr

VERIF = os.path.dirname(os.path.dirname(os.path.abspath(__file__)))
NPROC = int(os.environ.get("VERIF_NPROC", "0")) or min(16, os.cpu_count() or 1)
# runs against another checkout (seeded-mutation trials) must not overwrite the evidence of /repo
_ALT = os.environ.get("VERIF_REPO") not in (None, "", "/repo")
OUTDIR = os.path.join("/tmp", "verif_alt_%d" % os.getpid()) if _ALT else VERIF


# ------------------------------------------------------------------ concrete mode
class ConcreteEx:
    """same interface as Explorer for running a harness on concrete inputs (real library)"""
    concrete = True

    def __init__(self, inputs):
        self.given = inputs
        self.failed = []  # labels of violated obligations
        self.proved = []
        self.tags = []
        self.scratch = {}

    def _get(self, name):
        if name not in self.given:
            raise PathAbort("replay input %r missing" % name)
        return self.given[name]

    def fresh_int(self, name, lo=None, hi=None):
        v = self._get(name)
        if (lo is not None and v < lo) or (hi is not None and v > hi):
            raise PathAbort()
        return v

    def fresh_bool(self, name):
        return self.fresh_int(name, 0, 1) == 1

    def choice(self, name, options):
        options = _b.list(options)
        return options[self.fresh_int(name, 0, _b.len(options) - 1)]

    def fresh_bytes(self, name, lo, hi=None, opaque=False):
        v = _b.bytes(self._get(name))
        if _b.len(v) < lo or _b.len(v) > (lo if hi is None else hi):
            raise PathAbort()
        return v

    def assume(self, cond):
        if not cond:
            raise PathAbort()

    def require(self, cond, label):
        if cond:
            self.proved.append(label)
            return True
        self.failed.append(label)
        return False

    def tag(self, name):
        self.tags.append(name)

    def observe(self, v):
        return canon(v)


def canon(v):
    """canonical, JSON-able form of an observation"""
    if isinstance(v, (bytes, bytearray, memoryview)):
        return "hex:" + _b.bytes(v).hex()
    if isinstance(v, bool) or v is None or isinstance(v, (int, str)):
        return v
    if isinstance(v, float):
        return repr(v)
    if isinstance(v, (list, tuple)):
        return [canon(x) for x in v]
    if isinstance(v, (set, frozenset)):
        return sorted((canon(x) for x in v), key=repr)
    if isinstance(v, dict):
        return {str(canon(k)): canon(x) for k, x in v.items()}
    if hasattr(v, "name") and hasattr(v, "value") and not callable(v.value):
        return "enum:%s.%s" % (type(v).__name__, v.name)
    return "<%s>" % type(v).__name__


def sym_observe(ex, v):
    """evaluate a (partly) symbolic observation under a model of the current path"""
    m = ex.get_model()

    def ev(x):
        if isinstance(x, SymInt):
            return m.eval(x.t, model_completion=True).as_long()
        if isinstance(x, SymBool):
            return z3.is_true(m.eval(x.t, model_completion=True))
        if isinstance(x, SymStr):
            return _b.bytes(ev(x.rope)[4:] and _b.bytes.fromhex(ev(x.rope)[4:])).decode("latin1")
        if isinstance(x, SymBytes):
            out = bytearray()
            for s in x.segs:
                if isinstance(s, IntSeg) and s._arr is None:
                    iv = s.v if isinstance(s.v, int) else m.eval(s.v.t, model_completion=True).as_long()
                    out += (iv % (1 << (8 * s.width))).to_bytes(s.width, s.order)
                    continue
                n = s.n if isinstance(s.n, int) else m.eval(s.n.t, model_completion=True).as_long()
                off = s.off if isinstance(s.off, int) else m.eval(s.off.t, model_completion=True).as_long()
                if s.conc is not None:
                    out += s.conc[off:off + n]
                else:
                    for i in range(n):
                        out.append(m.eval(z3.Select(s.arr, off + i), model_completion=True).as_long() % 256)
            return "hex:" + _b.bytes(out).hex()
        if isinstance(x, (list, tuple)):
            return [ev(i) for i in x]
        if isinstance(x, dict):
            return {str(ev(k)): ev(i) for k, i in x.items()}
        if isinstance(x, (set, frozenset)):
            return sorted((ev(i) for i in x), key=repr)
        return canon(x)

    obs = ev(v)
    ex.result.inputs = ex.model_inputs(m)
    return obs


Explorer.observe = sym_observe
Explorer.concrete = False


# ------------------------------------------------------------------ units
class Unit:
    def __init__(self, name, sym, real=None, bounds=None, regions=(), split=False, max_paths=200000, max_depth=4000,
                 expect=None, diff=True, query_timeout_ms=20000, budget_s=None, diff_sample=None):
        self.name = name
        self.sym = sym  # fn(ex) over module copies
        self.real = real  # fn(ConcreteEx) over the real library (replay + differential); may be None
        self.bounds = bounds or {}
        self.regions = _b.list(regions)
        self.split = split
        self.max_paths = max_paths
        self.max_depth = max_depth
        self.diff = diff and real is not None
        self.query_timeout_ms = query_timeout_ms
        self.diff_sample = diff_sample  # how many proved paths are re-run on the real library (None = default 40)
        self.budget_s = budget_s  # wall budget of one exploration task (a subtree); exceeding it is inconclusive


DEBUG_POOL = bool(os.environ.get("SYMX_DEBUG_POOL"))
_DEADLINE_AT = None  # absolute time after which queued exploration tasks return at once (inherited by the forked workers)
CHECK_DEADLINE_S = None  # wall budget of the exploration of one check (set by check_property for the quick tier)
SLICE_S = 5  # a task that has run this long hands the unexplored rest of its subtree back to the pool
TASK_BUDGET_S = 1500  # wall budget of one exploration task; check_property lowers it for the quick tier
_UNITS: list[Unit] = []
_SEED = 0


def _res_to_dict(r):
    return {"status": r.status, "value": r.value, "obligations": r.obligations, "exc": r.exc, "nd": r.ndecisions,
            "inputs": r.inputs, "tags": r.tags}


def _explore_task(task):
    ui, prefixes, export, seed_target = task
    u = _UNITS[ui]
    if _DEADLINE_AT is not None and time.time() > _DEADLINE_AT:
        # the check's wall budget is used up: queued work is handed back unexplored (the unit is then inconclusive)
        return {"unit": ui, "results": [], "error": None, "paths": 0, "queries": 0, "solver_s": 0.0, "wall_s": 0.0, "hash_attempts": 0,
                "exported": [], "left": [p for p in prefixes], "skipped": True}
    if DEBUG_POOL:
        print("start pid=%d unit=%d prefix=%r" % (os.getpid(), ui, prefixes[0][:40]), file=sys.stderr, flush=True)
    e = Explorer(max_paths=u.max_paths, max_depth=u.max_depth, seed=_SEED, query_timeout_ms=u.query_timeout_ms)
    e.export_limit = export
    e.budget_s = u.budget_s or TASK_BUDGET_S
    t = time.time()
    try:
        res = e.explore(u.sym, prefixes=prefixes, stop_when_queued=seed_target, yield_after_s=SLICE_S)
        err = None
    except Unsupported as x:
        res = e.results  # partial results are kept: violations found so far are still replayed and reported
        err = "Unsupported: %s\n%s" % (x, "".join(traceback.format_tb(x.__traceback__)[-6:]))
    except BaseException as x:  # harness bug
        res = e.results
        err = "%s: %s\n%s" % (type(x).__name__, x, "".join(traceback.format_tb(x.__traceback__)[-8:]))
    if DEBUG_POOL:
        print("end pid=%d unit=%d paths=%d" % (os.getpid(), ui, e.paths), file=sys.stderr, flush=True)
    return {"unit": ui, "results": [_res_to_dict(r) for r in res], "error": err, "paths": e.paths, "queries": e.queries,
            "solver_s": e.solver_time, "wall_s": time.time() - t, "hash_attempts": e.hash_attempts, "exported": e.exported,
            "left": e.work if err is None else []}


def explore_units(units, seed=0, nproc=None, budget_s=None):
    """explore every unit exhaustively; returns per-unit aggregated dicts.
    Round 1: every unit is started in the pool; units marked split explore breadth-first until
    enough prefixes are queued.  Round 2: the queued prefixes (disjoint subtrees) are explored
    depth-first across the pool."""
    global _UNITS, _SEED
    _UNITS = _b.list(units)
    _SEED = seed
    nproc = nproc or NPROC
    agg = [{"unit": u.name, "results": [], "errors": [], "paths": 0, "queries": 0, "solver_s": 0.0, "cpu_s": 0.0,
            "hash_attempts": 0, "exported": []} for u in units]
    round2 = []
    pending = [0]
    global _DEADLINE_AT
    _DEADLINE_AT = (time.time() + CHECK_DEADLINE_S) if CHECK_DEADLINE_S is not None else None

    def merge(out):
        a = agg[out["unit"]]
        a["results"] += out["results"]
        if out["error"]:
            a["errors"].append(out["error"])
        for k in ("paths", "queries", "solver_s", "hash_attempts"):
            a[k] += out[k]
        a["cpu_s"] += out["wall_s"]
        a["exported"] += out["exported"]
        left = out["left"]
        if _b.len(left) > 1 and pending[0] > 8 * nproc:
            # plenty of work queued already: keep the rest of this subtree together instead of flooding the queue
            round2.append((out["unit"], _b.list(left), 1, None))
        else:
            for p in left:
                round2.append((out["unit"], [p], 1, None))

    tasks = [(ui, [[]], 3, (4 * nproc if (u.split and nproc > 1) else None)) for ui, u in enumerate(units)]
    # splittable (big) units first
    tasks.sort(key=lambda t: t[3] is None)
    if nproc <= 1:
        todo = _b.list(tasks)
        while todo:
            merge(_explore_task(todo.pop()))
            todo += round2
            del round2[:]
        return agg
    # work-stealing: every task runs for at most SLICE_S and returns the prefixes it has not explored; those are
    # queued again (deepest = smallest last).  A unit whose tasks together exceed budget x nproc is inconclusive.
    import queue
    done = queue.Queue()
    dead = set()
    ctx = mp.get_context("fork")
    with ctx.Pool(nproc) as pool:
        def submit(t):
            pending[0] += 1
            if DEBUG_POOL:
                print("submit unit=%d prefixes=%d pending=%d" % (t[0], _b.len(t[1]), pending[0]), file=sys.stderr, flush=True)
            pool.apply_async(_explore_task, (t,), callback=done.put, error_callback=done.put)
        t_start = time.time()
        late = [False]
        for t in tasks:
            submit(t)
        while pending[0]:
            out = done.get()
            pending[0] -= 1
            if CHECK_DEADLINE_S is not None and not late[0] and time.time() - t_start > CHECK_DEADLINE_S:
                # the check as a whole has used its wall budget (a change can make many path trees explode at once): nothing
                # more is started; what has been found so far is still replayed and reported, the rest is inconclusive
                late[0] = True
                for i, a in enumerate(agg):
                    dead.add(i)
            if DEBUG_POOL:
                print("result %s pending=%d" % (("unit=%d paths=%d left=%d err=%s" % (out["unit"], out["paths"], _b.len(out["left"]), bool(out["error"]))) if isinstance(out, dict) else repr(out), pending[0]), file=sys.stderr, flush=True)
            if isinstance(out, BaseException):
                raise out
            merge(out)
            ui = out["unit"]
            a, u = agg[ui], _UNITS[ui]
            if ui not in dead:
                if a["cpu_s"] > (u.budget_s or TASK_BUDGET_S) * nproc:
                    a["errors"].append("Unsupported: time budget of this unit exhausted (%d s x %d processes)" % (u.budget_s or TASK_BUDGET_S, nproc))
                    dead.add(ui)
                elif a["paths"] > u.max_paths:
                    a["errors"].append("Unsupported: max paths %d reached" % u.max_paths)
                    dead.add(ui)
            if ui not in dead:
                for t in round2:
                    submit(t)
            elif late[0] and round2 and not any("wall budget of the check" in e for e in a["errors"]):
                a["errors"].append("Unsupported: wall budget of the check (%d s) exhausted before this unit was fully explored" % CHECK_DEADLINE_S)
            del round2[:]
    return agg


# ------------------------------------------------------------------ replay on the real library
def run_real(unit, inputs):
    """run the concrete harness on the real library. returns (failed labels, exc, observation)"""
    cx = ConcreteEx(inputs)
    try:
        with core.watchdog(60):
            obs = unit.real(cx)
        return cx.failed, None, obs, cx
    except PathAbort:
        return [], "PathAbort", None, cx
    except core.PathTimeout:
        return cx.failed, ("Timeout", "the real library did not return within 60 s on these inputs (endless loop?)"), None, cx
    except Exception as e:
        return cx.failed, (type(e).__name__, _b.str(e)[:200]), None, cx


def _real_task(job):
    ui, inputs = job
    failed, exc, obs, _cx = run_real(_UNITS[ui], inputs)
    return _b.list(failed), exc, obs


def run_real_many(ui, inputs_list):
    """the concrete harness on the real library for many inputs, over the process pool"""
    jobs = [(ui, i) for i in inputs_list]
    if _b.len(jobs) < 24 or NPROC <= 1:
        return [_real_task(j) for j in jobs]
    with mp.get_context("fork").Pool(NPROC) as pool:
        return pool.map(_real_task, jobs, chunksize=max(1, _b.len(jobs) // (NPROC * 4)))


def enc_inputs(inputs):
    return {k: ("hex:" + v.hex() if isinstance(v, (bytes, bytearray)) else v) for k, v in (inputs or {}).items()}


def dec_inputs(d):
    return {k: (_b.bytes.fromhex(v[4:]) if isinstance(v, str) and v.startswith("hex:") else v) for k, v in d.items()}


# ------------------------------------------------------------------ known findings
def load_known():
    p = os.path.join(VERIF, "known_findings.json")
    if not os.path.exists(p):
        return []
    return json.load(open(p))["findings"]


def match_known(known, prop, unit_name, label, inputs):
    for k in known:
        if k.get("kind") != "known" or k["property"] != prop:
            continue
        if k.get("label") and k["label"] != label:
            continue
        if k.get("label_contains") and k["label_contains"] not in label:
            continue
        if k.get("unit_prefix") and not unit_name.startswith(k["unit_prefix"]):
            continue
        w = k.get("where")
        if w:
            try:
                if not eval(w, {"__builtins__": {"len": len, "abs": abs, "min": min, "max": max, "int": int, "bytes": bytes, "any": any, "all": all, "sum": sum}},
                            dict(inputs or {}, inputs=dict(inputs or {}))):
                    continue
            except Exception:
                continue
        return k
    return None


# ------------------------------------------------------------------ second solver
def second_solver(queries, limit=40, seed=0):
    """re-decide a sample of exported end-of-path queries (all expected unsat or sat as decided)
    with /usr/bin/z3 (4.8.12).  returns dict; disagreement -> 'disagree' > 0"""
    rng = random.Random(seed)
    qs = _b.list(queries)
    rng.shuffle(qs)
    qs = qs[:limit]
    out = {"solver": "/usr/bin/z3 4.8.12", "checked": 0, "agree": 0, "disagree": 0, "inconclusive": 0}
    for q, expected in qs:
        try:
            r = subprocess.run(["/usr/bin/z3", "-in", "-T:20"], input=q, capture_output=True, text=True, timeout=40)
            ans = r.stdout.strip().splitlines()
            if "(error" in r.stdout or not ans:
                out["inconclusive"] += 1
            elif ans[0] in ("sat", "unsat"):
                out["checked"] += 1
                if ans[0] == expected:
                    out["agree"] += 1
                else:
                    out["disagree"] += 1
            else:
                out["inconclusive"] += 1
        except Exception:
            out["inconclusive"] += 1
    return out


# ------------------------------------------------------------------ the check driver
class Outcome:
    def __init__(self):
        self.violations = []  # dict(unit,label,inputs,replay_path,what)
        self.known = []
        self.harness_errors = []
        self.lines = []


def write_replay(prop, unit, label, inputs, what):
    os.makedirs(os.path.join(OUTDIR, "replays"), exist_ok=True)
    body = {"property": prop, "unit": unit, "label": label, "inputs": enc_inputs(inputs), "observed": what}
    dig = hashlib.sha256(json.dumps(body, sort_keys=True).encode()).hexdigest()[:12]
    path = os.path.join(OUTDIR, "replays", "%s-%s.json" % (prop, dig))
    with open(path, "w") as f:
        json.dump(body, f, indent=1, sort_keys=True)
    return path


def check_property(prop, units, tier, seed, *, explanation, assumptions, stubs=(), bounds=None, canaries=None,
                   extra_checks=(), design_ref="", diff_sample=40):
    """explore all units, replay candidates, apply known findings, write evidence, return exit code"""
    global TASK_BUDGET_S
    global CHECK_DEADLINE_S
    CHECK_DEADLINE_S = (int(os.environ.get("SYMX_QUICK_DEADLINE_S", "420")) if tier == "quick" else None)
    core.PATH_TIMEOUT_S = 90 if tier == "quick" else 180
    TASK_BUDGET_S = 150 if tier == "quick" else 1800  # x nproc CPU-seconds per unit: a quick check ends within minutes even when a change makes the path tree explode
    t0 = time.time()
    out = Outcome()
    known = load_known()
    agg = explore_units(units, seed=seed)
    rng = random.Random(seed)
    total = {"paths": 0, "queries": 0, "solver_s": 0.0, "obligations": 0, "discharged": 0, "sat": 0, "exc_paths": 0,
             "aborted": 0, "nontrivial": 0, "reached": 0, "hash_attempts": 0, "cpu_s": 0.0}
    per_unit = []
    samples = []
    diff = {"compared": 0, "agree": 0}
    exported = []
    seen_findings = set()
    for ui, (u, a) in enumerate(zip(units, agg)):
        for e in a["errors"]:
            out.harness_errors.append("%s: %s" % (u.name, e))
        tags = set()
        n_obl = n_dis = n_sat = n_exc = n_abort = n_nontriv = n_reached = 0
        n_unsup_replayed = 0
        cands_real = []  # (label, inputs, exc) already observed on the real library
        cands = []  # (label, inputs)
        okpaths = []
        for r in a["results"]:
            tags.update(r["tags"])
            if r["status"] == "abort":
                n_abort += 1
                continue
            if r["status"] == "unsupported":
                # inconclusive symbolically; the concrete inputs of the path prefix are still run on the real library
                msg = "%s: a path could not be finished symbolically: %s at %s" % (u.name, r["exc"][1], r["exc"][2])
                if msg not in out.harness_errors:
                    out.harness_errors.append(msg)
                if u.real is not None and r["exc"][3] is not None and n_unsup_replayed < 25:
                    n_unsup_replayed += 1
                    failed, exc, obs, cx = run_real(u, r["exc"][3])
                    for lab in _b.list(failed) + (["unexpected-exception:%s" % exc[0]] if exc and exc != "PathAbort" else []):
                        cands_real.append((lab, r["exc"][3], exc))
                continue
            if r["obligations"] or r["status"] == "exc":
                n_reached += 1
                if r["nd"] > 0:
                    n_nontriv += 1
            for label, oc, inp in r["obligations"]:
                n_obl += 1
                if oc == "proved":
                    n_dis += 1
                else:
                    n_sat += 1
                    cands.append((label, inp))
            if r["status"] == "exc":
                n_exc += 1
                cands.append(("unexpected-exception:%s" % r["exc"][0], r["exc"][3]))
                if r["exc"][3] is None:
                    out.harness_errors.append("%s: exception without model: %r" % (u.name, r["exc"]))
            elif r["status"] == "ok" and r["inputs"] is not None and _b.all(oc == "proved" for _, oc, _i in r["obligations"]):
                okpaths.append(r)
        for e in a["exported"]:
            exported.append(e)
        # vacuity
        if not a["errors"]:
            if n_reached == 0:
                out.harness_errors.append("%s: vacuous - no path reached an obligation" % u.name)
            for reg in u.regions:
                if reg not in tags:
                    out.harness_errors.append("%s: vacuous - region %r has no witness" % (u.name, reg))
        for lab, inp, exc in cands_real:
            k = match_known(known, prop, u.name, lab, inp)
            if k is not None:
                if k["id"] not in seen_findings:
                    seen_findings.add(k["id"])
                    out.known.append(k)
                continue
            if (u.name, lab) in seen_findings:
                continue
            seen_findings.add((u.name, lab))
            what = "%s / %s (on the real library, inputs of a path the symbolic side could not finish)%s" % (u.name, lab, (" (%s)" % exc[1]) if exc and exc != "PathAbort" else "")
            out.violations.append({"unit": u.name, "label": lab, "inputs": enc_inputs(inp), "replay": write_replay(prop, u.name, lab, inp, what), "what": what})
        # candidates -> replay on the real library
        done = set()
        labels_done = {}
        for label, inp in cands:
            if inp is None:
                continue
            key = (label, json.dumps(enc_inputs(inp), sort_keys=True))
            # every distinct label is replayed (up to 24 different inputs each); beyond 150 replays per unit only labels not seen yet
            if key in done or labels_done.get(label, 0) >= 24 or (_b.len(done) > 150 and label in labels_done):
                continue
            done.add(key)
            labels_done[label] = labels_done.get(label, 0) + 1
            if u.real is None:
                out.harness_errors.append("%s: candidate violation %r cannot be replayed (no concrete harness): %r"
                                          % (u.name, label, enc_inputs(inp)))
                continue
            failed, exc, obs, cx = run_real(u, inp)
            labels = _b.list(failed) + (["unexpected-exception:%s" % exc[0]] if exc and exc != "PathAbort" else [])
            if not labels:
                out.harness_errors.append("%s: candidate %r did not reproduce on the real library, inputs %r (encoding or shim is wrong)"
                                          % (u.name, label, enc_inputs(inp)))
                continue
            for lab in labels:
                k = match_known(known, prop, u.name, lab, inp)
                if k is not None:
                    if k["id"] not in seen_findings:
                        seen_findings.add(k["id"])
                        out.known.append(k)
                    continue
                fk = (u.name, lab)
                if fk in seen_findings:
                    continue
                seen_findings.add(fk)
                what = "%s / %s%s" % (u.name, lab, (" (%s)" % exc[1]) if exc and exc != "PathAbort" else "")
                path = write_replay(prop, u.name, lab, inp, what)
                out.violations.append({"unit": u.name, "label": lab, "inputs": enc_inputs(inp), "replay": path, "what": what})
        # model-based differential: the concrete inputs of a sample of fully proved paths are run on the real library.
        # An obligation that fails there (or an escaping exception) IS a violation replayed on the real library - this is
        # how defects inside code that the symbolic side replaces by a stub/ideal primitive are still reported.
        if u.diff and okpaths:
            rng.shuffle(okpaths)
            sel = okpaths[:(u.diff_sample or diff_sample)]
            for r, (failed, exc, obs) in zip(sel, run_real_many(ui, [r["inputs"] for r in sel])):
                diff["compared"] += 1
                if exc is None and not failed and obs == r["value"]:
                    diff["agree"] += 1
                elif exc == "PathAbort":
                    diff["compared"] -= 1
                elif failed or exc:
                    labels = _b.list(failed) + (["unexpected-exception:%s" % exc[0]] if exc else [])
                    for lab in labels:
                        k = match_known(known, prop, u.name, lab, r["inputs"])
                        if k is not None:
                            if k["id"] not in seen_findings:
                                seen_findings.add(k["id"])
                                out.known.append(k)
                            continue
                        fk = (u.name, lab)
                        if fk in seen_findings:
                            continue
                        seen_findings.add(fk)
                        what = "%s / %s (on the real library; proved on the symbolic side, i.e. inside stubbed or idealised code)%s" % (
                            u.name, lab, (" (%s)" % exc[1]) if exc else "")
                        path = write_replay(prop, u.name, lab, r["inputs"], what)
                        out.violations.append({"unit": u.name, "label": lab, "inputs": enc_inputs(r["inputs"]), "replay": path, "what": what})
                else:
                    out.harness_errors.append("%s: differential mismatch on inputs %r: symbolic %r vs real %r"
                                              % (u.name, enc_inputs(r["inputs"]), r["value"], obs))
            for r in okpaths[:2]:
                if _b.len(samples) < 12:
                    samples.append({"unit": u.name, "inputs": enc_inputs(r["inputs"]), "observation": r["value"]})
        elif okpaths and _b.len(samples) < 12:
            samples.append({"unit": u.name, "inputs": enc_inputs(okpaths[0]["inputs"]), "observation": okpaths[0]["value"]})
        per_unit.append({"unit": u.name, "paths": a["paths"], "reached_obligation": n_reached, "aborted_by_assume": n_abort,
                         "obligations": n_obl, "discharged": n_dis, "sat": n_sat, "exception_paths": n_exc,
                         "queries": a["queries"], "solver_s": round(a["solver_s"], 2), "cpu_s": round(a["cpu_s"], 2),
                         "bounds": u.bounds, "regions_witnessed": sorted(tags)})
        total["paths"] += a["paths"]
        total["queries"] += a["queries"]
        total["solver_s"] += a["solver_s"]
        total["cpu_s"] += a["cpu_s"]
        total["obligations"] += n_obl
        total["discharged"] += n_dis
        total["sat"] += n_sat
        total["exc_paths"] += n_exc
        total["aborted"] += n_abort
        total["nontrivial"] += n_nontriv
        total["reached"] += n_reached
        total["hash_attempts"] += a["hash_attempts"]

    if diff["compared"] != diff["agree"]:
        pass  # already recorded as harness errors
    # extra (side) checks: callables returning list of error strings / violation dicts
    side = []
    for name, fn in extra_checks:
        try:
            r = fn()
        except Exception as e:
            r = {"errors": ["%s raised %s: %s" % (name, type(e).__name__, e)]}
        side.append({"name": name, **{k: v for k, v in r.items() if k not in ("errors", "violations")}})
        for e in r.get("errors", []):
            out.harness_errors.append("%s: %s" % (name, e))
        for v in r.get("violations", []):
            k = match_known(known, prop, name, v["label"], v.get("inputs"))
            if k is not None:
                if k["id"] not in seen_findings:
                    seen_findings.add(k["id"])
                    out.known.append(k)
                continue
            path = write_replay(prop, name, v["label"], v.get("inputs"), v.get("what", v["label"]))
            out.violations.append({"unit": name, "label": v["label"], "inputs": enc_inputs(v.get("inputs")), "replay": path,
                                   "what": v.get("what", v["label"])})
    # second solver on exported queries (expected: unsat, since exported before the verdict of a proved obligation)
    ss = None
    if exported:
        # decide expected verdict with the primary solver again (string round trip)
        pairs = []
        for q in exported[:60]:
            s = z3.Solver()
            s.set("timeout", 20000)
            try:
                s.from_string(q)
                pairs.append((q, str(s.check())))
            except z3.Z3Exception:
                continue
        ss = second_solver([(q, v) for q, v in pairs if v in ("sat", "unsat")], seed=seed)
        if ss["disagree"]:
            out.harness_errors.append("second solver disagrees on %d exported queries" % ss["disagree"])
    # canaries
    can = None
    if canaries is not None:
        can = canaries()
        for c in can:
            if c.get("stale"):
                # the textual mutation no longer matches the source (the code it targets was changed): it says nothing about the
                # harness either way; recorded in the evidence, not an alarm
                print("NOTE: canary %r does not apply to the current source text (skipped)" % c["name"], file=sys.stderr)
            elif not c["detected"]:
                out.harness_errors.append("canary %r not detected - the harness is too weak to believe" % c["name"])

    wall = time.time() - t0
    code = 0
    for k in out.known:
        print("KNOWN-FINDING: property=%s %s [%s]" % (prop, k["what"], k["id"]))
    for v in out.violations:
        print("VIOLATION property=%s replay=%s" % (prop, v["replay"]))
        print("  unit=%s %s inputs=%s" % (v["unit"].replace(" ", "_"), v["what"], json.dumps(v["inputs"])[:300]))
        code = 1
    if out.harness_errors:
        for e in out.harness_errors[:20]:
            print("INCONCLUSIVE: %s" % e[:600], file=sys.stderr)
        if code == 0:
            code = 2
    evidence = {
        "property_id": prop, "tier": tier, "seed": seed, "level": "other", "wall_s": round(wall, 2),
        "violations": _b.len(out.violations),
        "assumptions": _b.list(assumptions),
        "coverage": {
            "explanation": explanation,
            "technique": "bounded symbolic execution of the repository's real source (symx: proxy values + z3), one SMT-decided obligation set per explored path",
            "design_ref": design_ref,
            "evaluations": total["paths"],
            "distinct_nontrivial": total["nontrivial"],
            "rule": "one evaluation = one explored path (distinct decision vector over symbolic branch conditions, i.e. a distinct input class); non-trivial = the path took at least one symbolic decision and reached a proof obligation or an escaping exception",
            "samples": samples or [{"note": "no ok path sample"}],
            "exhaustive": not out.harness_errors,
            "obligations": total["obligations"], "discharged": total["discharged"], "sat": total["sat"],
            "exception_paths": total["exc_paths"], "paths_cut_by_assume": total["aborted"],
            "queries": total["queries"], "solver_s": round(total["solver_s"], 2), "cpu_s": round(total["cpu_s"], 2),
            "unknown": 0 if not any("unknown" in e for e in out.harness_errors) else 1,
            "bounds": bounds or {}, "units": per_unit,
            "functions_encoded": loader.functions_encoded(),
            "stubs": _b.list(stubs),
            "differential_vs_real_library": diff,
            "second_solver": ss, "canaries": can, "side_checks": side,
            "known_findings_reported": [k["id"] for k in out.known],
            "inconclusive_reasons": out.harness_errors[:20],
            "hash_attempts_on_symbolic_values": total["hash_attempts"],
            "solver": "z3 %s" % z3.get_version_string(), "nproc": NPROC,
        },
    }
    os.makedirs(os.path.join(OUTDIR, "evidence"), exist_ok=True)
    with open(os.path.join(OUTDIR, "evidence", "%s.json" % prop), "w") as f:
        json.dump(evidence, f, indent=1, default=str)
    print("%s %s: %d units, %d paths, %d/%d obligations discharged, %d queries, solver %.1fs, wall %.1fs, diff %d/%d, exit %d"
          % (prop, tier, _b.len(units), total["paths"], total["discharged"], total["obligations"], total["queries"],
             total["solver_s"], wall, diff["agree"], diff["compared"], code))
    return code


def run_canaries(build, canaries, seed=0):
    """each canary: (name, mutate-dict). detected = some obligation violated or exception path"""
    out = []
    # a canary is a seeded defect: its path tree may explode like any other changed tree, and it counts as detected as soon as
    # one obligation fails - so every canary runs under the quick tier's budgets, whatever the tier of the check
    global CHECK_DEADLINE_S, TASK_BUDGET_S
    saved = (CHECK_DEADLINE_S, TASK_BUDGET_S, core.PATH_TIMEOUT_S)
    CHECK_DEADLINE_S, TASK_BUDGET_S, core.PATH_TIMEOUT_S = 150, 60, 60
    try:
        return _run_canaries(build, canaries, seed, out)
    finally:
        CHECK_DEADLINE_S, TASK_BUDGET_S, core.PATH_TIMEOUT_S = saved


def _run_canaries(build, canaries, seed, out):
    for name, mutate, unit_filter in canaries:
        t = time.time()
        applied = []
        mutate = {k: (lambda src, f=f: (lambda r: (applied.append(r != src), r)[1])(f(src))) for k, f in mutate.items()}
        try:
            units = [u for u in build(mutate) if unit_filter is None or unit_filter(u.name)]
            if not _b.any(applied):
                out.append({"name": name, "detected": False, "stale": True, "wall_s": 0.0, "errors": ["the textual mutation does not match the current source"]})
                continue
            agg = explore_units(units, seed=seed)
            det = False
            errs = []
            for a in agg:
                errs += a["errors"]
                for r in a["results"]:
                    if r["status"] == "exc" or _b.any(oc == "violated" for _, oc, _i in r["obligations"]):
                        det = True
            out.append({"name": name, "detected": det, "wall_s": round(time.time() - t, 1), "errors": errs[:2]})
        except Exception as e:
            out.append({"name": name, "detected": False, "wall_s": round(time.time() - t, 1),
                        "errors": ["%s: %s" % (type(e).__name__, e)]})
            if "canary transform did not change" in _b.str(e):
                out[-1]["stale"] = True  # the loader refuses a textual mutation that does not match the source
    return out
