"""Byte strings as ropes of segments.

A segment is a window [off, off+n) over either a z3 array Int->Int (opaque or constrained
content, reads are constrained to 0..255 when made) or a concrete `bytes` base.  Offsets and
lengths may be symbolic.  Equality is decided after solver-backed normalisation, piecewise on
aligned windows (see DESIGN.md 2.2); a *proved* equality is a real equality for all contents.
"""
from __future__ import annotations

import builtins as _b

import z3

from . import core
from .core import (PathAbort, SymBool, SymInt, Unsupported, concretize, decide, ex, provable, simp, tobool, toz)

CELL_LIMIT = 24  # max bytes compared cell-wise between pieces of different provenance
DY_CELL_LIMIT = 512  # same, when one side is adversary-arbitrary (ideal crypto worlds)

ZERO = z3.K(z3.IntSort(), z3.IntVal(0))


class Seg:
    __slots__ = ("arr", "conc", "off", "n")

    def __init__(self, arr=None, off=0, n=0, conc=None):
        self.arr, self.conc, self.off, self.n = arr, conc, off, n
        if conc is not None and n is None:
            self.n = _b.len(conc) - off

    def is_conc(self):
        return self.conc is not None

    def name(self):
        return None if self.conc is not None else _b.str(self.arr)

    def same_base(self, o):
        if self.conc is not None or o.conc is not None:
            return self.conc is not None and o.conc is not None and (self.conc is o.conc or self.conc == o.conc)
        return self.arr.eq(o.arr)

    def materialized(self):
        """concrete bytes of this window, or None"""
        if self.conc is None:
            return None
        if isinstance(self.off, int) and isinstance(self.n, int):
            return self.conc[self.off:self.off + self.n]
        return None

    def cell(self, rel):
        """z3 Int term (or python int) for the byte at window-relative index rel"""
        i = simp(self.off + rel)
        if self.conc is not None:
            i = concretize(i)
            if not isinstance(i, int):
                return z3.Select(_conc_array(self.conc), toz(i))
            return self.conc[i]
        return z3.Select(self.arr, toz(i))

    def __repr__(self):
        base = ("c%d" % _b.len(self.conc)) if self.conc is not None else _b.str(self.arr)
        return "Seg(%s,%s,%s)" % (base, getattr(self.off, "t", self.off), getattr(self.n, "t", self.n))


class IntSeg(Seg):
    """the `width`-byte encoding of an integer term (unsigned, given byte order), kept abstract: two such segments are
    equal iff the integers are.  Digits are only introduced (as fresh variables with one linear equation) when a single
    byte or a partial window of the encoding is needed."""
    __slots__ = ("v", "width", "order", "_arr")

    def __init__(self, v, width, order):
        self.v, self.width, self.order, self._arr = v, width, order, None
        self.conc, self.off, self.n = None, 0, width

    @property
    def arr(self):
        if self._arr is None:
            e = ex()
            w = concretize(self.width)
            if not isinstance(w, int):
                raise Unsupported("digits of an integer encoding with symbolic width")
            self.width = self.n = w
            ds = [z3.Int(e.fresh_name("dig")) for _ in range(self.width)]
            for d in ds:
                e.add(z3.And(d >= 0, d <= 255))
            total = z3.Sum([d * (256 ** i) for i, d in enumerate(ds)]) if self.width > 1 else ds[0]
            e.add(toz(self.v) == total)
            if self.order == "big":
                ds.reverse()
            a = z3.Array(e.fresh_name("cells"), z3.IntSort(), z3.IntSort())
            for i, d in enumerate(ds):
                e.add(z3.Select(a, i) == d)
            self._arr = a
        return self._arr

    @arr.setter
    def arr(self, value):
        self._arr = value

    def plain(self):
        """ordinary array segment over the digits"""
        return Seg(self.arr, 0, self.width)

    def same_base(self, o):
        return o is self

    def name(self):
        return "int!" if self._arr is None else _b.str(self._arr)

    def __repr__(self):
        return "IntSeg(%s,%s,%s)" % (getattr(self.v, "t", self.v), getattr(self.width, "t", self.width), self.order)


_CONC_ARRAYS: dict = {}


def _conc_array(conc):
    a = _CONC_ARRAYS.get(conc)
    if a is None:
        if _b.len(conc) > 4096:
            raise Unsupported("symbolic index into a long concrete segment")
        a = ZERO
        for i, v in enumerate(conc):
            a = z3.Store(a, i, v)
        _CONC_ARRAYS[conc] = a
    return a


def cseg(data, off=0, n=None):
    data = _b.bytes(data)
    return Seg(None, off, _b.len(data) - off if n is None else n, data)


def _syn_adjacent(p, s):
    """purely syntactic test that window s continues window p"""
    if not p.same_base(s):
        return False
    e = simp(p.off + p.n)
    if isinstance(e, int) or isinstance(s.off, int):
        return isinstance(e, int) and isinstance(s.off, int) and e == s.off
    return e.t.eq(s.off.t)


def norm(segs, solver=True):
    """drop empty segments, concretise bounds, merge adjacent windows of one base"""
    out = []
    for s in segs:
        if isinstance(s, IntSeg):
            w = concretize(s.width) if solver else s.width
            if isinstance(w, int) and w == 0:
                continue
            if out and s.order == "big" and _is_zero_fill(out[-1]):
                # zeros(k) || BE(v, n) = BE(v, k + n)
                z = out.pop()
                s = IntSeg(s.v, simp(z.n + s.width), "big")
                if solver:
                    s.width = s.n = concretize(s.width)
            out.append(s)
            continue
        if out and isinstance(out[-1], IntSeg) and out[-1].order == "little" and _is_zero_fill(s):
            p = out[-1]
            out[-1] = IntSeg(p.v, simp(p.width + s.n), "little")
            continue
        n = simp(s.n)
        if isinstance(n, int):
            if n == 0:
                continue
        elif solver:
            n = concretize(n)
            if isinstance(n, int):
                if n == 0:
                    continue
            elif provable(n == 0):
                continue
        off = simp(s.off)
        if solver and not isinstance(off, int):
            off = concretize(off)
        s = Seg(s.arr, off, n, s.conc)
        if out and not isinstance(out[-1], IntSeg):
            p = out[-1]
            pm, sm = p.materialized(), s.materialized()
            if pm is not None and sm is not None:
                out[-1] = cseg(pm + sm)
                continue
            if p.same_base(s) and (_syn_adjacent(p, s) or (solver and provable(simp(p.off + p.n) == s.off))):
                out[-1] = Seg(p.arr, p.off, simp(p.n + s.n), p.conc)
                continue
        out.append(s)
    if solver:
        # re-concretise after merging: sums of symbolic lengths are often unique again
        for i, s in enumerate(out):
            if isinstance(s, IntSeg):
                continue
            if not isinstance(s.n, int) or not isinstance(s.off, int):
                n, off = concretize(s.n), concretize(s.off)
                if n is not s.n or off is not s.off:
                    out[i] = Seg(s.arr, off, n, s.conc)
    return out


def _is_zero_fill(seg):
    if isinstance(seg, IntSeg):
        return False
    if seg.conc is not None:
        m = seg.materialized()
        return m is not None and m == _b.bytes(_b.len(m))
    return seg.arr is not None and seg.arr.eq(ZERO)


def rebase(segs):
    """fold [concrete bytes][window over a concrete base] pairs into one window (used by find):
    re-attach to the base when the bytes are what the base holds just before the window,
    otherwise rebase onto a new concrete string with the same content"""
    out = []
    for s in segs:
        if out:
            p = out[-1]
            pm = p.materialized()
            if pm is not None and s.conc is not None and isinstance(s.off, int):
                k = _b.len(pm)
                if s.off >= k and s.conc[s.off - k:s.off] == pm:
                    out[-1] = Seg(None, s.off - k, simp(s.n + k), s.conc)
                else:
                    out[-1] = Seg(None, 0, simp(s.n + k), pm + s.conc[s.off:])
                continue
        out.append(s)
    return out


def as_rope(o):
    if isinstance(o, SymBytes):
        return o
    if isinstance(o, SymStr):
        return o.rope
    if isinstance(o, (bytes, bytearray, memoryview)):
        return SymBytes([cseg(o)] if _b.len(o) else [])
    raise Unsupported("as_rope(%s)" % type(o).__name__)


def is_term_array(seg):
    nm = seg.name()
    return nm is not None and nm.startswith("T!")


def is_opaque_array(seg):
    nm = seg.name()
    return nm is not None and nm.startswith("opq!")


def is_adv_array(seg):
    nm = seg.name()
    return nm is not None and nm.startswith("adv")


def rope_eq(a, b):
    """True / False / SymBool.  Sufficient-and-necessary when it returns a formula built
    from cell comparisons and offset equalities; raises Unsupported when pieces of different
    provenance are too long to compare cell-wise."""
    a, b = as_rope(a), as_rope(b)
    A, B = norm(a.segs), norm(b.segs)
    la, lb = a.length(), b.length()
    if isinstance(la, int) and isinstance(lb, int):
        if la != lb:
            return False
    else:
        if not decide(la == lb):
            return False
    conj = []
    i = j = 0
    ua = ub = 0
    while i < _b.len(A) and j < _b.len(B):
        x, y = A[i], B[j]
        if (isinstance(x, IntSeg) or isinstance(y, IntSeg)) and ua == 0 and ub == 0:
            r = _intseg_eq(x, y)
            if r is not None:
                conj.append(r)
                i += 1
                j += 1
                continue
        if isinstance(x, IntSeg):
            x = A[i] = x.plain()
        if isinstance(y, IntSeg):
            y = B[j] = y.plain()
        ra, rb = simp(x.n - ua), simp(y.n - ub)
        take = ra if decide(ra <= rb) else rb
        if x.same_base(y):
            c = simp(x.off + ua) == simp(y.off + ub)
            if c is True or (c is not False and provable(c)):
                pass
            elif x.conc is None and (is_term_array(x) or is_opaque_array(x)):
                # a window of an opaque value equals only the same window of it
                conj.append(c)
            else:
                conj.append(_cellwise(x, ua, y, ub, take))
        elif is_term_array(x) or is_term_array(y):
            # Dolev-Yao: an opaque term value equals only itself; only adversary-arbitrary
            # bytes may coincide with it (that is the replay/guess case, decided cell-wise)
            if is_adv_array(x) or is_adv_array(y):
                conj.append(_cellwise(x, ua, y, ub, take, DY_CELL_LIMIT))
            else:
                return False
        else:
            xm, ym = x.materialized(), y.materialized()
            n = concretize(take)
            oa, ob = concretize(ua), concretize(ub)
            if xm is not None and ym is not None and isinstance(n, int) and isinstance(oa, int) and isinstance(ob, int):
                if xm[oa:oa + n] != ym[ob:ob + n]:
                    return False
            else:
                conj.append(_cellwise(x, ua, y, ub, take))
        ua, ub = simp(ua + take), simp(ub + take)
        if provable(ua == x.n):
            i += 1
            ua = 0
        if provable(ub == y.n):
            j += 1
            ub = 0
    terms = []
    for c in conj:
        if c is True:
            continue
        if c is False:
            return False
        terms.append(c.t if isinstance(c, SymBool) else c)
    if not terms:
        return True
    f = z3.simplify(z3.And(terms))
    if z3.is_true(f):
        return True
    if z3.is_false(f):
        return False
    return SymBool(f)


def _intseg_eq(x, y):
    """equality of two whole segments when at least one is an abstract integer encoding; None = not applicable"""
    if isinstance(x, IntSeg) and isinstance(y, IntSeg):
        if x.order == y.order and provable(x.width == y.width):
            return x.v == y.v
        return None
    a, o = (x, y) if isinstance(x, IntSeg) else (y, x)
    m = o.materialized()
    if m is not None and isinstance(a.width, int) and _b.len(m) == a.width:
        return a.v == _b.int.from_bytes(m, a.order)
    return None


def _cellwise(x, ua, y, ub, take, limit=None):
    n = concretize(take)
    lim = limit or CELL_LIMIT
    if not isinstance(n, int) or n > lim:
        raise Unsupported("rope equality: pieces of different provenance too long/symbolic (%s)" % (n,))
    cs = []
    for k in range(n):
        ca, cb = x.cell(simp(ua + k)), y.cell(simp(ub + k))
        if isinstance(ca, int) and isinstance(cb, int):
            if ca != cb:
                return False
        else:
            cs.append(toz(ca) == toz(cb))
    return SymBool(z3.And(cs)) if cs else True


class HexOf:
    """hex rendering of a non-concrete byte string: may be formatted into messages or compared, never parsed
    (it is deliberately not a str, so a semantic use fails loudly)"""

    def __init__(self, r):
        self.rope = r

    def decode(self, *a):
        return self

    def hex(self):
        return self

    def __format__(self, spec):
        return "<symhex>"

    def __str__(self):
        return "<symhex>"

    __repr__ = __str__


class FmtDict(dict):
    """a lookup table whose values are only used to format messages: a symbolic key yields a placeholder"""

    def get(self, k, default=None):
        if core.is_sym(k):
            c = concretize(k) if isinstance(k, SymInt) else k
            if core.is_sym(c):
                return "<sym>"
            k = c
        return dict.get(self, k, default)


class SymBytes:
    mutable = False
    __slots__ = ("segs",)

    def __init__(self, segs=()):
        self.segs = _b.list(segs)

    # ---- size
    def length(self):
        n = 0
        for s in self.segs:
            n = n + s.n
        return simp(n)

    def __len__(self):
        n = concretize(self.length())
        if isinstance(n, int):
            return n
        raise Unsupported("len() of a rope with symbolic length through the C-level protocol")

    def __bool__(self):
        return decide(self.length() > 0)

    # ---- slicing
    def _slice(self, start, stop):
        """segments for [start, stop) with 0 <= start <= stop <= len already established"""
        out = []
        pos = 0
        if isinstance(start, int) and isinstance(stop, int) and start == stop:
            return out
        for s in self.segs:
            end = simp(pos + s.n)
            if decide(end <= start):
                pos = end
                continue
            if decide(stop <= pos):
                break
            a = start if decide(pos < start) else pos
            bnd = stop if decide(stop < end) else end
            n = simp(bnd - a)
            rel = simp(a - pos)
            if isinstance(s, IntSeg):
                if isinstance(rel, int) and rel == 0 and (n is s.width or (isinstance(n, int) and n == s.width) or provable(n == s.width)):
                    out.append(s)
                    pos = end
                    continue
                s = s.plain()
            out.append(Seg(s.arr, simp(s.off + rel), n, s.conc))
            pos = end
        return out

    def _clamp(self, i, ln, default):
        if i is None:
            return default
        if isinstance(i, SymBool):
            i = SymInt(toz(i))
        if decide(i < 0):
            i = simp(i + ln)
            if decide(i < 0):
                i = 0
        elif decide(i > ln):
            i = ln
        return i

    def slice(self, start, stop):
        ln = self.length()
        start = self._clamp(start, ln, 0)
        stop = self._clamp(stop, ln, ln)
        if decide(stop < start):
            stop = start
        return type(self)(self._slice(start, stop))

    def __getitem__(self, i):
        if isinstance(i, slice):
            if i.step is not None and i.step != 1:
                raise Unsupported("slice step")
            return self.slice(i.start, i.stop)
        ln = self.length()
        if decide(i < 0):
            i = simp(i + ln)
        if decide(i < 0) or decide(ln <= i):
            raise IndexError("index out of range")
        return self._cell_at(i)

    def _cell_at(self, i):
        pos = 0
        for s in self.segs:
            end = simp(pos + s.n)
            if decide(i < end):
                return _read(s, simp(i - pos))
            pos = end
        raise Unsupported("cell lookup fell off the rope")

    def __iter__(self):
        n = concretize(self.length())
        if isinstance(n, int) and _b.all(isinstance(concretize(s.n), int) for s in self.segs):
            for s in _b.list(self.segs):
                for k in range(concretize(s.n)):
                    yield _read(s, k)
            return
        i = 0
        while decide(i < self.length()):
            yield self[i]
            i += 1

    # ---- combination
    def __add__(self, o):
        if isinstance(o, (SymBytes, bytes, bytearray, memoryview)):
            return type(self)(self.segs + as_rope(o).segs)
        return NotImplemented

    def __radd__(self, o):
        if isinstance(o, (bytes, bytearray)):
            cls = SymByteArray if isinstance(o, bytearray) else SymBytes
            return cls(as_rope(o).segs + self.segs)
        return NotImplemented

    def __mul__(self, k):
        k = concretize(k)
        if not isinstance(k, int):
            raise Unsupported("rope * symbolic")
        return type(self)(self.segs * _b.max(k, 0))

    __rmul__ = __mul__

    def copy(self):
        return type(self)(self.segs)

    # ---- comparison
    def __eq__(self, o):
        if isinstance(o, (SymBytes, bytes, bytearray, memoryview)):
            return rope_eq(self, o)
        return NotImplemented

    def __ne__(self, o):
        r = self.__eq__(o)
        if r is NotImplemented:
            return r
        return (not r) if isinstance(r, bool) else SymBool(z3.Not(r.t))

    def __hash__(self):
        c = self.concrete_or_none()
        if c is not None:
            return hash(c)
        ex().hash_attempts += 1
        raise TypeError("unhashable symbolic bytes")

    # ---- concrete views
    def concrete_or_none(self):
        segs = norm(self.segs)
        if not segs:
            return b""
        if _b.len(segs) == 1:
            return segs[0].materialized()
        ms = [s.materialized() for s in segs]
        if _b.all(m is not None for m in ms):
            return b"".join(ms)
        return None

    def concrete(self):
        c = self.concrete_or_none()
        if c is None:
            raise Unsupported("needs concrete bytes: %r" % (norm(self.segs),))
        return c

    def __bytes__(self):
        return self.concrete()

    def hex(self, *a):
        c = self.concrete_or_none()
        return c.hex(*a) if c is not None else HexOf(self)

    def decode(self, *a, **k):
        c = self.concrete_or_none()
        if c is not None:
            return c.decode(*a, **k)
        return SymStr(SymBytes(self.segs))

    def startswith(self, prefix):
        prefix = as_rope(prefix)
        n = prefix.length()
        if decide(self.length() < n):
            return False
        return decide(self.slice(0, n) == prefix)

    def endswith(self, suffix):
        suffix = as_rope(suffix)
        n = suffix.length()
        ln = self.length()
        if decide(ln < n):
            return False
        return decide(self.slice(simp(ln - n), ln) == suffix)

    def find(self, pat, start=None, end=None):
        if start is not None or end is not None:
            return _shift_find(self, pat, start, end)
        segs = norm(self.segs)
        pat = _b.bytes(pat)
        if not segs:
            return 0 if not pat else -1
        if _b.len(segs) > 1:
            segs = rebase(segs)
        if _b.len(segs) != 1 or segs[0].conc is None:
            c = self.concrete_or_none()
            if c is not None:
                return c.find(pat)
            raise Unsupported("find on a rope that is not one concrete window: %r" % (segs,))
        s = segs[0]
        m = _b.len(pat)
        p = s.conc.find(pat, s.off if isinstance(s.off, int) else 0)
        while p != -1:
            if decide(p >= s.off):
                if decide(p + m <= s.off + s.n):
                    return simp(p - s.off)
                return -1  # first candidate at/after the start does not fit => later ones neither
            p = s.conc.find(pat, p + 1)
        return -1

    def index(self, pat, *a):
        r = self.find(pat, *a)
        if decide(r < 0):
            raise ValueError("subsection not found")
        return r

    def __contains__(self, item):
        if isinstance(item, (bytes, bytearray)):
            return decide(self.find(item) >= 0)
        for c in self:
            if decide(c == item):
                return True
        return False

    def __repr__(self):
        c = None
        try:
            if core.CUR is not None:
                c = self.concrete_or_none()
        except BaseException:
            c = None
        return repr(c) if c is not None else "<symbytes %r>" % (self.segs,)

    __str__ = __repr__

    def __format__(self, spec):
        return "<symbytes>"


def _shift_find(rope, pat, start, end):
    sub = rope.slice(start, end)
    r = sub.find(pat)
    if decide(r < 0):
        return -1
    ln = rope.length()
    st = rope._clamp(start, ln, 0)
    return simp(r + st)


_WS = b" \t\n\r\x0b\x0c"


def _strip_rope(r, chars, left, right, limit=6):
    """strip family on a rope with symbolic content: one decision per removed byte, at most `limit` per side"""
    chars = _WS if chars is None else (chars.encode() if isinstance(chars, str) else _b.bytes(chars))
    for side in ((0,) if left else ()) + ((1,) if right else ()):
        k = 0
        while True:
            n = r.length()
            if not decide(n > 0):
                break
            b = r[simp(n - 1)] if side else r[0]
            if not _b.any(decide(b == c) for c in chars):
                break
            r = r.slice(0, simp(n - 1)) if side else r.slice(1, n)
            k += 1
            if k > limit:
                raise Unsupported("strip of more than %d symbolic bytes" % limit)
    return r


for _name, _l, _r in (("strip", True, True), ("lstrip", True, False), ("rstrip", False, True)):
    def _mk(name, l, r):
        def f(self, chars=None):
            c = self.concrete_or_none()
            if c is not None:
                return getattr(c if not self.mutable else _b.bytearray(c), name)(chars)
            return _strip_rope(self, chars, l, r)
        f.__name__ = name
        return f
    setattr(SymBytes, _name, _mk(_name, _l, _r))

def _join(self, parts):
    """sep.join(parts) for byte strings, symbolic parts allowed"""
    out = type(self)([])
    first = True
    for part in parts:
        if not first:
            out = out + self
        out = out + as_rope(part)
        first = False
    return out


SymBytes.join = _join

for _name in ("split", "title", "lower", "upper", "partition", "rpartition", "replace",
              "splitlines", "isdigit", "count"):
    def _mk(name):
        def f(self, *a, **k):
            return getattr(_b.bytes(self.concrete()) if not self.mutable else _b.bytearray(self.concrete()), name)(*a, **k)
        f.__name__ = name
        return f
    setattr(SymBytes, _name, _mk(_name))


def _read(seg, rel):
    """byte read with provenance"""
    v = seg.cell(rel)
    if isinstance(v, int):
        return v
    if seg.conc is None:
        ex().add(z3.And(v >= 0, v <= 255))
        return SymInt(v, (seg.arr, simp(seg.off + rel)))
    return SymInt(v)


class SymByteArray(SymBytes):
    mutable = True
    __slots__ = ()
    __hash__ = None

    def pop(self, i=-1):
        ln = self.length()
        if decide(ln <= 0):
            raise IndexError("pop from empty bytearray")
        if isinstance(i, int) and i == 0:
            v = self[0]
            self.segs = self._slice(1, ln)
            return v
        if isinstance(i, int) and i == -1:
            v = self[simp(ln - 1)]
            self.segs = self._slice(0, simp(ln - 1))
            return v
        raise Unsupported("bytearray.pop(%r)" % (i,))

    def __iadd__(self, o):
        self.segs = self.segs + as_rope(o).segs
        return self

    def extend(self, o):
        if isinstance(o, (SymBytes, bytes, bytearray)):
            self.segs = self.segs + as_rope(o).segs
        else:
            for v in o:
                self.append(v)

    def append(self, v):
        if isinstance(v, SymBool):
            v = SymInt(toz(v))
        v = simp(v)
        if isinstance(v, int):
            if not 0 <= v <= 255:
                raise ValueError("byte must be in range(0, 256)")
            p = self.segs[-1] if self.segs else None
            if p is not None and p.conc is not None and isinstance(p.off, int) and isinstance(p.n, int) and _b.len(p.conc) < 64:
                self.segs[-1] = cseg(p.conc[p.off:p.off + p.n] + _b.bytes([v]))
            else:
                self.segs.append(cseg(_b.bytes([v])))
            return
        if v.src is not None:
            arr, off = v.src
            new = Seg(arr, off, 1)
            p = self.segs[-1] if self.segs else None
            if p is not None and _syn_adjacent(p, new):
                self.segs[-1] = Seg(p.arr, p.off, simp(p.n + 1))
            else:
                self.segs.append(new)
            return
        if decide(v < 0) or decide(v > 255):
            raise ValueError("byte must be in range(0, 256)")
        self.segs.append(cells_seg([v]))

    def clear(self):
        self.segs = []

    def __delitem__(self, sl):
        if not isinstance(sl, slice) or sl.step is not None:
            raise Unsupported("del bytearray[non-slice]")
        ln = self.length()
        start = self._clamp(sl.start, ln, 0)
        stop = self._clamp(sl.stop, ln, ln)
        if decide(stop < start):
            stop = start
        self.segs = self._slice(0, start) + self._slice(stop, ln)

    def __setitem__(self, k, v):
        if isinstance(k, slice):
            if k.step is not None:
                raise Unsupported("bytearray slice assignment with step")
            ln = self.length()
            start = self._clamp(k.start, ln, 0)
            stop = self._clamp(k.stop, ln, ln)
            if decide(stop < start):
                stop = start
            self.segs = self._slice(0, start) + as_rope(v).segs + self._slice(stop, ln)
            return
        ln = self.length()
        if decide(k < 0):
            k = simp(k + ln)
        if decide(k < 0) or decide(ln <= k):
            raise IndexError("bytearray index out of range")
        tmp = SymByteArray([])
        tmp.append(v)
        self.segs = self._slice(0, k) + tmp.segs + self._slice(simp(k + 1), ln)


def cells_seg(terms):
    """a segment whose bytes are the given int terms"""
    terms = [simp(t) for t in terms]
    if _b.all(isinstance(t, int) for t in terms):
        return cseg(_b.bytes(terms))
    e = ex()
    arr = z3.Array(e.fresh_name("cells"), z3.IntSort(), z3.IntSort())
    for i, t in enumerate(terms):
        e.add(z3.Select(arr, i) == toz(t))
    return Seg(arr, 0, _b.len(terms))


def int_to_rope(v, length, byteorder="big", signed=False):
    """int.to_bytes over a possibly symbolic value"""
    length = concretize(length)
    if not isinstance(length, int):
        ml = ex().scratch.get("minlen", {})
        key = length.lin if isinstance(length, SymInt) else None
        if key in ml and isinstance(v, SymInt) and ml[key] == (v.lin, v.k) and not signed:
            # v.to_bytes(minimal byte length of v): never overflows; the length stays symbolic
            return SymBytes([IntSeg(v, length, byteorder)])
        raise Unsupported("to_bytes with symbolic length")
    if isinstance(v, int):
        return SymBytes([cseg(v.to_bytes(length, byteorder, signed=signed))]) if length else SymBytes([])
    lo, hi = (-(1 << (8 * length - 1)), (1 << (8 * length - 1)) - 1) if signed else (0, (1 << (8 * length)) - 1)
    if length == 0:
        lo = hi = 0
    if decide(v < lo) or decide(v > hi):
        raise OverflowError("int too big to convert")
    if length == 0:
        return SymBytes([])
    if byteorder not in ("big", "little"):
        raise ValueError("byteorder must be either 'little' or 'big'")
    if signed:
        v = core.ite(v >= 0, v, v + (1 << (8 * length)))
    return SymBytes([IntSeg(v, length, byteorder)])


def rope_to_int(b, byteorder="big", signed=False):
    """int.from_bytes over a rope"""
    b = as_rope(b)
    n = concretize(b.length())
    if not isinstance(n, int):
        raise Unsupported("int.from_bytes of a rope with symbolic length")
    segs = [s for s in b.segs if not (isinstance(s.n, int) and s.n == 0)]
    if _b.len(segs) == 1 and isinstance(segs[0], IntSeg) and segs[0].order == byteorder:
        v = segs[0].v
        if signed:
            v = core.ite(v >= (1 << (8 * n - 1)), v - (1 << (8 * n)), v)
        return v
    cs = [b[i] for i in range(n)]
    if byteorder == "big":
        cs = cs[::-1]
    v = 0
    for i, c in enumerate(cs):
        v = v + c * (256 ** i)
    if signed and n:
        v = core.ite(v >= (1 << (8 * n - 1)), v - (1 << (8 * n)), v)
    return simp(v)


def zeros(n):
    """bytes(n) with a possibly symbolic count"""
    if isinstance(n, int):
        return SymBytes([cseg(_b.bytes(n))] if n else [])
    if decide(n < 0):
        raise ValueError("negative count")
    return SymBytes([Seg(ZERO, 0, n)])


class SymStr:
    """ASCII string over a rope (encode/decode are the identity)"""
    __slots__ = ("rope",)

    def __init__(self, rope):
        self.rope = rope

    def encode(self, *a, **k):
        return SymBytes(self.rope.segs)

    def length(self):
        return self.rope.length()

    def __eq__(self, o):
        if isinstance(o, str):
            o = SymStr(as_rope(o.encode()))
        if isinstance(o, SymStr):
            return rope_eq(self.rope, o.rope)
        return NotImplemented

    def __ne__(self, o):
        r = self.__eq__(o)
        if r is NotImplemented:
            return r
        return (not r) if isinstance(r, bool) else SymBool(z3.Not(r.t))

    def __hash__(self):
        c = self.rope.concrete_or_none()
        if c is not None:
            return hash(c.decode())
        ex().hash_attempts += 1
        raise TypeError("unhashable symbolic str")

    def __add__(self, o):
        if isinstance(o, str):
            return SymStr(self.rope + o.encode())
        if isinstance(o, SymStr):
            return SymStr(self.rope + o.rope)
        return NotImplemented

    def __radd__(self, o):
        if isinstance(o, str):
            return SymStr(as_rope(o.encode()) + self.rope)
        return NotImplemented

    def __str__(self):
        c = self.rope.concrete_or_none()
        return c.decode() if c is not None else "<symstr>"

    __repr__ = __str__

    def __format__(self, spec):
        return _b.str(self)

    def strip(self, chars=None):
        return SymStr(_strip_rope(SymBytes(self.rope.segs), chars, True, True))

    def lstrip(self, chars=None):
        return SymStr(_strip_rope(SymBytes(self.rope.segs), chars, True, False))

    def rstrip(self, chars=None):
        return SymStr(_strip_rope(SymBytes(self.rope.segs), chars, False, True))

    def startswith(self, p):
        return SymBytes(self.rope.segs).startswith(p.encode() if isinstance(p, str) else p.rope)

    def endswith(self, p):
        return SymBytes(self.rope.segs).endswith(p.encode() if isinstance(p, str) else p.rope)

    def __getattr__(self, name):
        if name in ("upper", "lower", "title", "split", "replace", "partition", "rpartition", "casefold", "swapcase", "zfill", "removeprefix", "removesuffix"):
            raise Unsupported("str.%s on a symbolic string" % name)
        raise AttributeError(name)


def slen(x):
    if isinstance(x, SymBytes):
        return x.length()
    if isinstance(x, SymStr):
        return x.rope.length()
    return _b.len(x)


def same_window(rope, arr, off, n):
    """solver-proved: rope is exactly the window [off, off+n) of z3 array arr"""
    segs = norm(as_rope(rope).segs)
    if not segs:
        return provable(tobool(simp(0 + n) == 0)) if not isinstance(n, int) else n == 0
    if _b.len(segs) != 1 or segs[0].conc is not None or not segs[0].arr.eq(arr):
        return False
    return provable(simp(segs[0].off + 0) == off) and provable(simp(segs[0].n + 0) == n)
