"""Loading the real source of a repository module into a module object whose builtins are
solver-aware shims (DESIGN.md 2.1).  Nothing in /repo is modified."""
from __future__ import annotations

import ast
import builtins as _b
import functools
import hashlib
import importlib
import os
import struct as _struct
import sys
import types

from . import core
from .core import SymBool, SymInt, Unsupported, concretize, decide, simp, toz
from .rope import (SymByteArray, SymBytes, SymStr, as_rope, cells_seg, cseg, int_to_rope, rope_to_int, slen, zeros)

REPO = os.environ.get("VERIF_REPO", "/repo")

LOADED: list[dict] = []  # evidence: every module copy loaded in this process


# ------------------------------------------------------------ literal-operation pass
class _LitPass(ast.NodeTransformer):
    """`b"".join(x)` -> symx_litcall_(b"", "join", x);  "fmt" % args -> symx_fmt_("fmt", args)
    (the two places where Python gives a proxy argument no hook)."""

    def __init__(self):
        self.rewrites = []

    def visit_Call(self, node):
        self.generic_visit(node)
        f = node.func
        if isinstance(f, ast.Attribute) and isinstance(f.value, ast.Constant) and isinstance(f.value.value, (str, bytes)):
            self.rewrites.append((node.lineno, "litcall .%s" % f.attr))
            return ast.copy_location(
                ast.Call(ast.Name("symx_litcall_", ast.Load()), [f.value, ast.Constant(f.attr)] + node.args, node.keywords), node)
        return node

    def visit_BinOp(self, node):
        self.generic_visit(node)
        if isinstance(node.op, ast.Mod) and isinstance(node.left, ast.Constant) and isinstance(node.left.value, (str, bytes)):
            self.rewrites.append((node.lineno, "fmt %"))
            return ast.copy_location(ast.Call(ast.Name("symx_fmt_", ast.Load()), [node.left, node.right], []), node)
        return node


def symx_litcall_(lit, name, *args, **kw):
    if name == "join" and not kw and _b.len(args) == 1:
        items = _b.list(args[0])
        if _b.any(isinstance(i, (SymBytes, SymStr)) for i in items):
            if isinstance(lit, bytes):
                out = SymBytes([])
                for k, i in enumerate(items):
                    if k and lit:
                        out = out + lit
                    out = out + as_rope(i)
                return out
            out = SymStr(SymBytes([]))
            for k, i in enumerate(items):
                if k and lit:
                    out = out + lit
                out = out + i
            return out
        return lit.join(items)
    return getattr(lit, name)(*args, **kw)


def symx_fmt_(lit, args):
    tup = args if isinstance(args, tuple) else (args,)
    if _b.any(core.is_sym(a) for a in tup):
        return lit  # formatting of symbolic values is not the subject: unformatted template
    return lit % args


# ------------------------------------------------------------ type shims
class TypeShim:
    """stand-in for a builtin type object inside a module copy"""

    def __init__(self, real, conv, ic, extra=None):
        self.real, self.conv, self._ic, self.extra = real, conv, ic, extra or {}

    def __call__(self, *a, **k):
        return self.conv(*a, **k)

    def __mro_entries__(self, bases):
        return (self.real,)

    def __instancecheck__(self, o):
        return self._ic(o)

    def __getattr__(self, k):
        ex = self.__dict__.get("extra", {})
        if k in ex:
            return ex[k]
        return getattr(self.__dict__["real"], k)

    def __or__(self, o):  # `int | None` in annotations evaluated at runtime
        return self.real | (o.real if isinstance(o, TypeShim) else o)

    def __ror__(self, o):
        return (o.real if isinstance(o, TypeShim) else o) | self.real

    def __repr__(self):
        return "<shim %s>" % self.real.__name__

    def __hash__(self):
        return hash(self.real)

    def __eq__(self, o):
        return o is self or o is self.real


def _int_conv(x=0, *a, **k):
    if a or k:
        if isinstance(x, (SymBytes, SymStr)):
            x = x.concrete() if isinstance(x, SymBytes) else _b.str(x)
        return _b.int(x, *a, **k)
    if isinstance(x, SymInt):
        return x
    if isinstance(x, SymBool):
        return SymInt(toz(x))
    if isinstance(x, SymBytes):
        return _b.int(x.concrete())
    if isinstance(x, SymStr):
        return _b.int(x.rope.concrete().decode())
    if hasattr(x, "__symx_int__"):
        return x.__symx_int__()
    return _b.int(x)


def _int_from_bytes(b, byteorder="big", *, signed=False):
    if isinstance(b, SymBytes):
        c = b.concrete_or_none()
        if c is None:
            return rope_to_int(b, byteorder, signed)
        b = c
    return _b.int.from_bytes(b, byteorder, signed=signed)


IntShim = TypeShim(_b.int, _int_conv, lambda o: isinstance(o, (_b.int, SymInt, SymBool)), {"from_bytes": _int_from_bytes})


def _bytes_conv(x=b"", *a, **k):
    if isinstance(x, SymBytes):
        c = x.concrete_or_none() if core.CUR is not None else None
        return SymBytes(x.segs)
    if isinstance(x, (SymInt, SymBool)):
        n = concretize(x if isinstance(x, SymInt) else SymInt(toz(x)))
        return _b.bytes(n) if isinstance(n, int) else zeros(n)
    if isinstance(x, SymStr):
        return x.encode()
    if isinstance(x, (list, tuple)) and _b.any(isinstance(v, (SymInt, SymBool)) for v in x):
        out = SymByteArray([])
        for v in x:
            out.append(v)
        return SymBytes(out.segs)
    return _b.bytes(x, *a, **k)


BytesShim = TypeShim(_b.bytes, _bytes_conv,
                     lambda o: isinstance(o, _b.bytes) or (isinstance(o, SymBytes) and not isinstance(o, SymByteArray)))


def _ba_conv(x=b"", *a, **k):
    if isinstance(x, SymBytes):
        return SymByteArray(x.segs)
    if isinstance(x, (SymInt, SymBool)):
        return SymByteArray(zeros(x if isinstance(x, SymInt) else SymInt(toz(x))).segs)
    if isinstance(x, SymStr):
        return SymByteArray(x.rope.segs)
    if isinstance(x, (list, tuple)) and _b.any(isinstance(v, (SymInt, SymBool)) for v in x):
        out = SymByteArray([])
        for v in x:
            out.append(v)
        return out
    return SymByteArray(as_rope(_b.bytes(x, *a, **k)).segs)


BAShim = TypeShim(_b.bytearray, _ba_conv, lambda o: isinstance(o, (_b.bytearray, SymByteArray)))


def _str_conv(x="", *a, **k):
    if isinstance(x, SymStr):
        return x
    if isinstance(x, SymBytes) and (a or k):
        return x.decode(*a, **k)
    return _b.str(x, *a, **k)


StrShim = TypeShim(_b.str, _str_conv, lambda o: isinstance(o, (_b.str, SymStr)))


def s_isinstance(o, t):
    if isinstance(t, tuple):
        return _b.any(s_isinstance(o, x) for x in t)
    if isinstance(t, TypeShim):
        return t._ic(o)
    if t is _b.int:
        return IntShim._ic(o)
    if t is _b.bytes:
        return BytesShim._ic(o)
    if t is _b.bytearray:
        return BAShim._ic(o)
    if t is _b.str:
        return StrShim._ic(o)
    return _b.isinstance(o, t)


def s_range(*a):
    a = [simp(x) for x in a]
    if _b.all(isinstance(x, int) for x in a):
        return _b.range(*a)
    start, stop, step = (0, a[0], 1) if _b.len(a) == 1 else (a[0], a[1], 1) if _b.len(a) == 2 else a
    stepc = concretize(step)
    if isinstance(stepc, int) and stepc == 0:
        raise ValueError("range() arg 3 must not be zero")
    if not isinstance(stepc, int):
        if decide(step <= 0):
            raise Unsupported("range with symbolic non-positive step")
        up = True
    else:
        up = stepc > 0

    def g():
        i = start
        while decide(i < stop) if up else decide(i > stop):
            yield i
            i = simp(i + step)

    return g()


def s_divmod(a, b):
    return _b.divmod(a, b)


def s_hex(x):
    return "<symhex>" if isinstance(x, SymInt) and not isinstance(concretize(x), int) else _b.hex(x)


def s_type(*a):
    if _b.len(a) == 1:
        o = a[0]
        if isinstance(o, SymByteArray):
            return BAShim
        if isinstance(o, SymBytes):
            return BytesShim
        if isinstance(o, (SymInt,)):
            return IntShim
        if isinstance(o, SymStr):
            return StrShim
    return _b.type(*a)


SHIM_BUILTINS = dict(len=slen, int=IntShim, bytes=BytesShim, bytearray=BAShim, str=StrShim, isinstance=s_isinstance,
                     range=s_range, hex=s_hex)


# ------------------------------------------------------------ struct shim
_SIZES = {"x": 1, "c": 1, "b": 1, "B": 1, "?": 1, "h": 2, "H": 2, "i": 4, "I": 4, "l": 4, "L": 4, "q": 8, "Q": 8}
_SIGNED = set("bhilq")


def _parse_fmt(fmt):
    if isinstance(fmt, bytes):
        fmt = fmt.decode()
    order = "@"
    if fmt and fmt[0] in "@=<>!":
        order, fmt = fmt[0], fmt[1:]
    items = []
    num = ""
    for ch in fmt:
        if ch.isdigit():
            num += ch
            continue
        if ch.isspace():
            continue
        if ch not in _SIZES:
            return None
        k = _b.int(num) if num else 1
        num = ""
        items += [ch] * k
    if order == "@":
        # native alignment: only modelled when no padding can occur (all items one size)
        if _b.len({_SIZES[c] for c in items}) > 1:
            return None
        if "l" in items or "L" in items:
            return None  # native long is 8 bytes here
    big = order in ">!" or (order in "@=" and sys.byteorder == "big")
    return big, items


class SymStruct:
    """struct.Struct over proxies for the integer formats; concrete calls use the real struct"""

    def __init__(self, fmt):
        self.format = fmt
        self._real = _struct.Struct(fmt)
        self.size = self._real.size
        self._parsed = _parse_fmt(fmt)

    def pack(self, *vals):
        if not _b.any(isinstance(v, (SymInt, SymBool)) for v in vals):
            return self._real.pack(*vals)
        if self._parsed is None:
            raise Unsupported("struct format %r with symbolic values" % (self.format,))
        big, items = self._parsed
        vals = _b.list(vals)
        out = SymBytes([])
        for ch in items:
            if ch == "x":
                out = out + b"\x00"
                continue
            if not vals:
                raise _struct.error("pack expected more items")
            v = vals.pop(0)
            if isinstance(v, SymBool):
                v = SymInt(toz(v))
            if ch == "?":
                raise Unsupported("struct ? with symbolic value")
            try:
                out = out + int_to_rope(v, _SIZES[ch], "big" if big else "little", ch in _SIGNED)
            except OverflowError:
                raise _struct.error("argument out of range") from None
        if vals:
            raise _struct.error("pack expected fewer items")
        return out

    def unpack(self, b):
        if not isinstance(b, SymBytes):
            return self._real.unpack(b)
        c = b.concrete_or_none()
        if c is not None:
            return self._real.unpack(c)
        if decide(b.length() != self.size):
            raise _struct.error("unpack requires a buffer of %d bytes" % self.size)
        return self._unpack_at(b, 0)

    def unpack_from(self, b, offset=0):
        if not isinstance(b, SymBytes) and not isinstance(offset, SymInt):
            return self._real.unpack_from(b, offset)
        b = as_rope(b)
        if decide(offset < 0):
            offset = simp(offset + b.length())
            if decide(offset < 0):
                raise _struct.error("offset out of range")
        if decide(b.length() - offset < self.size):
            raise _struct.error("unpack_from requires a buffer of at least %d bytes" % self.size)
        return self._unpack_at(b, offset)

    def _unpack_at(self, b, offset):
        if self._parsed is None:
            raise Unsupported("struct format %r with symbolic buffer" % (self.format,))
        big, items = self._parsed
        out = []
        pos = offset
        for ch in items:
            n = _SIZES[ch]
            if ch != "x":
                if ch in "c?":
                    raise Unsupported("struct %s with symbolic buffer" % ch)
                out.append(rope_to_int(b.slice(pos, simp(pos + n)), "big" if big else "little", ch in _SIGNED))
            pos = simp(pos + n)
        return tuple(out)

    def iter_unpack(self, b):
        raise Unsupported("struct.iter_unpack")


class StructModuleShim:
    error = _struct.error
    Struct = SymStruct

    @staticmethod
    def pack(fmt, *vals):
        return SymStruct(fmt).pack(*vals)

    @staticmethod
    def unpack(fmt, b):
        return SymStruct(fmt).unpack(b)

    @staticmethod
    def unpack_from(fmt, b, offset=0):
        return SymStruct(fmt).unpack_from(b, offset)

    @staticmethod
    def calcsize(fmt):
        return _struct.calcsize(fmt)


def _regen_struct_aliases(m):
    """module-level Struct objects and bound pack/unpack aliases -> SymStruct equivalents"""
    n = 0
    for k, v in _b.list(m.__dict__.items()):
        if isinstance(v, _struct.Struct):
            m.__dict__[k] = SymStruct(v.format)
            n += 1
        elif isinstance(v, types.BuiltinMethodType) and isinstance(getattr(v, "__self__", None), _struct.Struct):
            m.__dict__[k] = getattr(SymStruct(v.__self__.format), v.__name__)
            n += 1
        elif isinstance(v, functools.partial) and isinstance(getattr(v.func, "__self__", None), _struct.Struct):
            m.__dict__[k] = functools.partial(getattr(SymStruct(v.func.__self__.format), v.func.__name__), *v.args, **v.keywords)
            n += 1
        elif v is _struct:
            m.__dict__[k] = StructModuleShim
            n += 1
    return n


# ------------------------------------------------------------ loader
def source_path(modname):
    real = importlib.import_module(modname)
    path = real.__file__
    if not os.path.abspath(path).startswith(os.path.abspath(REPO) + os.sep):
        raise RuntimeError("module %s does not come from %s (%s)" % (modname, REPO, path))
    return path


def load(modname, patches=None, deps=None, builtins_extra=None, symbolic=True, src_transform=None):
    """exec the repository source of `modname` in a fresh module object with shimmed builtins.
    deps: {real module name: module copy} bound during exec (imports inside resolve to the copy).
    symbolic=False gives the concrete-mode copy (real builtins) used by the differential tests.
    src_transform: source text -> source text, used ONLY by seeded-defect canaries."""
    path = source_path(modname)
    src = open(path).read()
    sha = hashlib.sha256(src.encode()).hexdigest()
    if src_transform is not None:
        src2 = src_transform(src)
        if src2 == src:
            raise RuntimeError("canary transform did not change %s" % modname)
        src = src2
    tree = ast.parse(src, path)
    lp = _LitPass()
    tree = ast.fix_missing_locations(lp.visit(tree))
    bd = _b.dict(_b.__dict__)
    if symbolic:
        bd.update(SHIM_BUILTINS)
    if builtins_extra:
        bd.update(builtins_extra)
    real = sys.modules[modname]
    m = types.ModuleType("symcopy." + modname)
    is_pkg = os.path.basename(path) == "__init__.py"
    m.__dict__.update({"__name__": modname, "__builtins__": bd, "__file__": path,
                       "__package__": modname if is_pkg else modname.rpartition(".")[0],
                       "symx_litcall_": symx_litcall_, "symx_fmt_": symx_fmt_})
    if is_pkg:
        m.__path__ = real.__path__
    saved = {}
    for k, v in (deps or {}).items():
        saved[k] = sys.modules.get(k)
        sys.modules[k] = v
    try:
        exec(compile(tree, path, "exec", dont_inherit=True), m.__dict__)
    finally:
        for k, v in saved.items():
            if v is None:
                sys.modules.pop(k, None)
            else:
                sys.modules[k] = v
    nstruct = _regen_struct_aliases(m) if symbolic else 0
    lg = m.__dict__.get("logger")
    if lg is not None and hasattr(lg, "disabled"):
        # the logger object is shared with the real module; debug formatting is not the subject
        m.__dict__["logger"] = _NullLogger()
    for k, v in (patches or {}).items():
        setattr(m, k, v)
    LOADED.append({"module": modname, "file": os.path.relpath(path, REPO), "sha256": sha, "lines": src.count("\n") + 1,
                   "literal_rewrites": lp.rewrites, "struct_aliases": nstruct, "canary": src_transform is not None,
                   "symbolic": symbolic})
    return m


class _NullLogger:
    disabled = True

    def __getattr__(self, k):
        return self._noop

    def _noop(self, *a, **k):
        return None

    def isEnabledFor(self, lvl):
        return False


def functions_encoded():
    return [d for d in LOADED if not d["canary"]]


# ------------------------------------------------------------ coroutine driving
class Suspended(BaseException):
    pass


def drive(coro):
    """run a coroutine that never really suspends to completion; returns its result"""
    try:
        y = coro.send(None)
    except StopIteration as r:
        return r.value
    coro.close()
    raise Unsupported("coroutine suspended (awaited %r): needs a running loop" % (y,))
