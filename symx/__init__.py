"""symx - replay-based symbolic execution of real Python source with z3 (see DESIGN.md)."""
from .core import (CUR, Explorer, PathAbort, SymBool, SymInt, Unsupported, concretize, decide, ex, is_sym, ite, provable,
                   simp, tobool, toz)
from .rope import (Seg, SymByteArray, SymBytes, SymStr, as_rope, cells_seg, cseg, int_to_rope, norm, rope_eq, rope_to_int,
                   same_window, slen, zeros)
from .loader import drive, load
from .run import ConcreteEx, Unit, canon, check_property, run_canaries
