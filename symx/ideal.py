"""Ideal (Dolev-Yao) cryptography for module copies (DESIGN.md 4.2).

Every key, ciphertext, signature, digest is an opaque *term*: a byte string of its real length
backed by its own z3 array named "T!<n>", hash-consed by the symbolic term that produced it.
A window of a term equals only the same window of the same term; only adversary-arbitrary
bytes (arrays named "adv...") may coincide with it (rope equality, rope.py)."""
from __future__ import annotations

import builtins as _b

import z3

from .core import Unsupported, concretize, decide, ex
from .rope import IntSeg, Seg, SymBytes, as_rope, norm


class World:
    def __init__(self):
        self.by_term = {}  # term key -> SymBytes
        self.meta = {}  # array name -> dict
        self.records = []  # AEAD encryptions: dict(key, nonce, aad, pt, ct)
        self.log = []  # every primitive use, for monitors

    @staticmethod
    def get():
        s = ex().scratch
        if "world" not in s:
            s["world"] = World()
        return s["world"]

    def term(self, key, n, **meta):
        """the opaque value of term `key` (hash-consed), n bytes (n may be symbolic)"""
        if key not in self.by_term:
            name = "T!%d" % _b.len(self.by_term)
            arr = z3.Array(name, z3.IntSort(), z3.IntSort())
            self.by_term[key] = SymBytes([Seg(arr, 0, n)])
            self.meta[name] = dict(meta, key=key, n=n)
        return SymBytes(self.by_term[key].segs)

    def adversary_bytes(self, name, n):
        """arbitrary attacker-chosen bytes"""
        arr = z3.Array("adv!" + name, z3.IntSort(), z3.IntSort())
        return SymBytes([Seg(arr, 0, n)])

    def ident(self, rope):
        """structural identity of a byte string: a whole term, concrete bytes, or a composite"""
        segs = norm(as_rope(rope).segs)
        out = []
        for s in segs:
            if isinstance(s, IntSeg):
                out.append(("i", s.v if isinstance(s.v, int) else _b.str(s.v.t), s.width, s.order))
                continue
            m = s.materialized()
            if m is not None:
                out.append(("c", m))
            else:
                off, n = concretize(s.off), concretize(s.n)
                out.append(("a", s.name(), off if isinstance(off, int) else _b.str(off.t), n if isinstance(n, int) else _b.str(n.t)))
        return _b.tuple(out)

    def whole_term(self, rope):
        """meta of the term this rope is exactly, else None"""
        segs = norm(as_rope(rope).segs)
        if _b.len(segs) != 1 or segs[0].conc is not None:
            return None
        nm = segs[0].name()
        meta = self.meta.get(nm)
        if meta is None:
            return None
        full = self.by_term[meta["key"]].segs[0]
        from .core import provable
        if provable(segs[0].off == 0) and provable(segs[0].n == full.n):
            return meta
        return None


class IdealAEAD:
    """stands in for ChaCha20Poly1305Encryptor / Decryptor (aad, nonce, data argument order)"""
    error = None  # exception class raised on authentication failure (set by the harness)

    def __init__(self, key):
        self.W = World.get()
        self.key = self.W.ident(key)

    def encrypt(self, aad, nonce, plaintext):
        W = self.W
        pt, aad, nonce = as_rope(plaintext), as_rope(aad), as_rope(nonce)
        k = _b.len(W.records)
        ct = W.term(("aead", k), pt.length() + 16, kind="aead", index=k)
        rec = {"key": self.key, "nonce": nonce, "aad": aad, "pt": pt, "ct": ct, "index": k}
        W.records.append(rec)
        W.log.append(("encrypt", rec))
        return SymBytes(ct.segs)

    def decrypt(self, aad, nonce, ciphertext):
        W = self.W
        ct, aad, nonce = as_rope(ciphertext), as_rope(aad), as_rope(nonce)
        for rec in W.records:
            if rec["key"] != self.key:
                continue
            if decide(ct == rec["ct"]) and decide(nonce == rec["nonce"]) and decide(aad == rec["aad"]):
                W.log.append(("decrypt-ok", rec))
                return SymBytes(rec["pt"].segs)
        W.log.append(("decrypt-fail", None))
        raise (self.error or ValueError)("ideal AEAD: authentication failed")


def ideal_aead_class(error):
    return type("IdealAEAD_", (IdealAEAD,), {"error": error})
