"""Solver-level model of decimal.Decimal arithmetic for the conversions of C14 (DESIGN.md C14).

A value is a fixed-point rational N/D: N a python int or SymInt, D a concrete positive int.
Inside `localcontext()` each of - / * + rounds its exact result to ctx.prec significant digits
with ctx.rounding; the constructor never rounds; to_integral_value uses the context rounding.
Rounding to p significant digits forks through the engine on the decade 10^e <= |x| < 10^(e+1);
with e concrete the rounded value is an integer division by a constant, so every query is linear
integer arithmetic with div/mod by constants."""
from __future__ import annotations

import builtins as _b
import decimal as _d
from fractions import Fraction as F
from math import gcd

from .core import SymBool, SymInt, Unsupported, decide, ite

ROUND_HALF_UP = _d.ROUND_HALF_UP
ROUND_HALF_EVEN = _d.ROUND_HALF_EVEN

E_MIN, E_MAX = -12, 40  # decades the model knows; anything else is Unsupported (never silently wrong)


class Ctx:
    def __init__(self, prec=28, rounding=ROUND_HALF_EVEN):
        self.prec, self.rounding = prec, rounding


_STACK = [Ctx()]


def getctx():
    return _STACK[-1]


class localcontext:
    def __enter__(self):
        c = Ctx(_STACK[-1].prec, _STACK[-1].rounding)
        _STACK.append(c)
        return c

    def __exit__(self, *a):
        _STACK.pop()
        return False


def reset():
    del _STACK[1:]


class exact:
    """with exact(): arithmetic on SymDec is exact rational arithmetic (oracle side)"""

    def __enter__(self):
        _STACK.append(Ctx(None, ROUND_HALF_UP))

    def __exit__(self, *a):
        _STACK.pop()
        return False


def _floordiv(a, b):
    """floor(a / b) for concrete b > 0"""
    return a // b


def round_int(num, den, rounding):
    """integer nearest to / bounding num/den (den concrete > 0) under a decimal rounding mode"""
    if isinstance(num, int):
        return _round_int_concrete(num, den, rounding)
    if rounding == ROUND_HALF_UP:  # half away from zero
        if decide(num >= 0):
            return _floordiv(2 * num + den, 2 * den)
        return -_floordiv(-2 * num + den, 2 * den)
    if rounding == _d.ROUND_HALF_DOWN:  # half toward zero
        if decide(num >= 0):
            return -_floordiv(-2 * num + den, 2 * den)
        return _floordiv(2 * num + den, 2 * den)
    if rounding == ROUND_HALF_EVEN:
        q = _floordiv(num, den)
        r = num - q * den
        if decide(2 * r > den):
            return q + 1
        if decide(2 * r == den):
            return q + 1 if decide(q % 2 == 1) else q
        return q
    if rounding == _d.ROUND_FLOOR:
        return _floordiv(num, den)
    if rounding == _d.ROUND_CEILING:
        return -_floordiv(-num, den)
    if rounding == _d.ROUND_DOWN:  # toward zero
        return _floordiv(num, den) if decide(num >= 0) else -_floordiv(-num, den)
    if rounding == _d.ROUND_UP:  # away from zero
        return -_floordiv(-num, den) if decide(num >= 0) else _floordiv(num, den)
    raise Unsupported("decimal rounding mode %r" % (rounding,))


def _round_int_concrete(num, den, rounding):
    f = F(num, den)
    lo = f.numerator // f.denominator  # floor
    if f.denominator == 1:
        return lo
    hi = lo + 1
    twice = 2 * (f - lo)  # 0 < twice < 2
    if rounding == _d.ROUND_FLOOR:
        return lo
    if rounding == _d.ROUND_CEILING:
        return hi
    if rounding == _d.ROUND_DOWN:
        return lo if f >= 0 else hi
    if rounding == _d.ROUND_UP:
        return hi if f >= 0 else lo
    if twice > 1:
        return hi
    if twice < 1:
        return lo
    if rounding == ROUND_HALF_UP:
        return hi if f >= 0 else lo
    if rounding == _d.ROUND_HALF_DOWN:
        return lo if f >= 0 else hi
    if rounding == ROUND_HALF_EVEN:
        return lo if lo % 2 == 0 else hi
    raise Unsupported("decimal rounding mode %r" % (rounding,))


class SymDec:
    __slots__ = ("N", "D")

    def __init__(self, N, D=1):
        if isinstance(N, int) and D != 1:
            g = gcd(N, D)
            N, D = N // g, D // g
        self.N, self.D = N, D

    # ---- construction (the Decimal(...) the code under test calls)
    @staticmethod
    def make(v=0):
        if isinstance(v, SymDec):
            return SymDec(v.N, v.D)
        if isinstance(v, SymInt):
            return SymDec(v, 1)
        if isinstance(v, SymBool):
            return SymDec(SymInt(v.t), 1)
        if isinstance(v, bool):
            return SymDec(int(v), 1)
        if isinstance(v, F):
            return SymDec(v.numerator, v.denominator)
        d = _d.Decimal(v)  # exact; raises what the real constructor raises
        if not d.is_finite():
            raise Unsupported("non-finite Decimal in the symbolic model (covered by the concrete side check)")
        f = F(d)
        return SymDec(f.numerator, f.denominator)

    def is_concrete(self):
        return isinstance(self.N, int)

    def fraction(self):
        return F(self.N, self.D)

    # ---- context rounding
    def _ctx(self):
        c = getctx()
        if c.prec is None:  # exact arithmetic (used by harness-side oracles)
            return self
        return self._round_sig(c.prec, c.rounding)

    def _round_sig(self, prec, rounding):
        if self.is_concrete():
            if self.N == 0:
                return self
            # exact: scale by decade
            a = abs(F(self.N, self.D))
            e = 0
            while a >= F(10) ** (e + 1):
                e += 1
            while a < F(10) ** e:
                e -= 1
            return self._round_at(e, prec, rounding)
        if decide(self.N == 0):
            return SymDec(0, 1)
        a = self.N if decide(self.N > 0) else -self.N
        for e in range(E_MAX, E_MIN - 1, -1):
            lo, hi = F(10) ** e, F(10) ** (e + 1)
            # lo <= a/D < hi
            if decide(a * lo.denominator >= lo.numerator * self.D) and decide(a * hi.denominator < hi.numerator * self.D):
                return self._round_at(e, prec, rounding)
        raise Unsupported("decimal exponent outside the modelled range")

    def _round_at(self, e, prec, rounding):
        q = F(10) ** (e - prec + 1)  # quantum
        # x / q = N * q.den / (D * q.num)
        num = self.N * q.denominator
        den = self.D * q.numerator
        if isinstance(self.N, int):
            if (num % den) == 0:
                return self
        elif q.numerator == 1 and (q.denominator % self.D) == 0:
            return self  # quantum divides 1/D: every N/D is representable, rounding is exact
        n = round_int(num, den, rounding)
        return SymDec(n * q.numerator, q.denominator)

    # ---- arithmetic (each rounds under the current context)
    def _other(self, o):
        return o if isinstance(o, SymDec) else SymDec.make(o)

    def __add__(self, o):
        o = self._other(o)
        return SymDec(self.N * o.D + o.N * self.D, self.D * o.D)._ctx()

    __radd__ = __add__

    def __sub__(self, o):
        o = self._other(o)
        return SymDec(self.N * o.D - o.N * self.D, self.D * o.D)._ctx()

    def __rsub__(self, o):
        return self._other(o) - self

    def __mul__(self, o):
        o = self._other(o)
        if not self.is_concrete() and not o.is_concrete():
            raise Unsupported("product of two symbolic decimals")
        return SymDec(self.N * o.N, self.D * o.D)._ctx()

    __rmul__ = __mul__

    def __truediv__(self, o):
        o = self._other(o)
        if not o.is_concrete():
            raise Unsupported("division by a symbolic decimal")
        if o.N == 0:
            raise _d.DivisionByZero("division by zero")
        n, d = self.N * o.D, self.D * o.N
        if d < 0:
            n, d = -n, -d
        return SymDec(n, d)._ctx()

    def __mod__(self, o):
        """Decimal remainder: x - y * trunc(x / y) (sign of the dividend), divisor concrete"""
        o = self._other(o)
        if not o.is_concrete():
            raise Unsupported("remainder by a symbolic decimal")
        if o.N == 0:
            raise _d.InvalidOperation("x % 0")
        n, d = self.N * o.D, self.D * o.N
        if d < 0:
            n, d = -n, -d
        q = round_int(n, d, _d.ROUND_DOWN)  # truncation toward zero
        return (self - SymDec(q, 1) * o)

    def __rmod__(self, o):
        return self._other(o) % self

    def __floordiv__(self, o):
        o = self._other(o)
        if not o.is_concrete():
            raise Unsupported("division by a symbolic decimal")
        n, d = self.N * o.D, self.D * o.N
        if d < 0:
            n, d = -n, -d
        return SymDec(round_int(n, d, _d.ROUND_DOWN), 1)

    def __neg__(self):
        return SymDec(-self.N, self.D)

    def to_integral_value(self, rounding=None):
        return SymDec(round_int(self.N, self.D, rounding or getctx().rounding), 1)

    to_integral = to_integral_value

    # ---- comparisons (exact)
    def _cmp(self, o):
        o = self._other(o)
        return self.N * o.D, o.N * self.D

    def __lt__(self, o):
        a, b = self._cmp(o)
        return a < b

    def __le__(self, o):
        a, b = self._cmp(o)
        return a <= b

    def __gt__(self, o):
        a, b = self._cmp(o)
        return a > b

    def __ge__(self, o):
        a, b = self._cmp(o)
        return a >= b

    def __eq__(self, o):
        if not isinstance(o, (SymDec, int, SymInt)):
            return NotImplemented
        a, b = self._cmp(o)
        return a == b

    def __ne__(self, o):
        r = self.__eq__(o)
        return r if r is NotImplemented else (not r if isinstance(r, bool) else ~r)

    __hash__ = None

    def is_integer(self):
        """N/D is an integer (bool or SymBool)"""
        if self.D == 1:
            return True
        return self.N % self.D == 0

    def __abs__(self):
        if isinstance(self.N, int):
            return SymDec(abs(self.N), self.D)
        return SymDec(self.N if decide(self.N >= 0) else -self.N, self.D)

    def is_finite(self):
        return True

    def is_nan(self):
        return False

    def __bool__(self):
        return decide(self.N != 0)

    # ---- leaving the decimal world
    def __symx_int__(self):
        """int(Decimal): truncation toward zero"""
        if self.D == 1:
            return self.N
        if isinstance(self.N, int):
            return int(F(self.N, self.D))
        if decide(self.N >= 0):
            return self.N // self.D
        return -((-self.N) // self.D)

    def __int__(self):
        v = self.__symx_int__()
        return _b.int(v)

    def __float__(self):
        if self.is_concrete():
            return float(F(self.N, self.D))
        raise Unsupported("float() of a symbolic decimal through the C-level protocol")

    def __repr__(self):
        return "SymDec(%s/%s)" % (self.N, self.D)

    __str__ = __repr__

    def __format__(self, spec):
        return repr(self)


class SymFloat(SymDec):
    """result of float(decimal): the decimal value itself (the correctly-rounded binary conversion is CPython's job)"""
    __slots__ = ()


def float_conv(x=0.0):
    if isinstance(x, SymDec):
        return SymFloat(x.N, x.D)
    return _b.float(x)
