#!/bin/sh
# Idempotent bootstrap of the overlay venv used by every check (offline).
set -e
cd "$(dirname "$0")"
if [ ! -x .venv/bin/python ] || ! .venv/bin/python -c "import z3, aiohomekit, jsonschema" 2>/dev/null; then
  rm -rf .venv
  /venv/bin/python -m venv .venv
  SP=$(.venv/bin/python -c "import sysconfig; print(sysconfig.get_paths()['purelib'])")
  printf '%s\n%s\n' "/venv/lib/python3.12/site-packages" "/repo" > "$SP/verif_overlay.pth"
  PIP_NO_INDEX=1 .venv/bin/python -m pip install -q --no-index --find-links /opt/veriftools/wheels z3-solver cvc5 jsonschema >/dev/null
fi
.venv/bin/python -c "import z3, aiohomekit; print('venv ok: z3', z3.get_version_string(), 'aiohomekit', aiohomekit.__file__)"
