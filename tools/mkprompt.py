#!/usr/bin/env python3
"""tools/mkprompt.py <property id> <round>  -> /tmp/agent_prompts/<id>_r<round>.txt and worktree /tmp/wt<round>_<id>
The prompt holds only the property text and the summaries of earlier seeded changes (so that new ones differ)."""
import glob, json, os, subprocess, sys
pid, rnd = sys.argv[1], int(sys.argv[2])
prop = [json.loads(l) for l in open("/verif/properties.jsonl") if json.loads(l)["id"] == pid][0]
wt = "/tmp/wt%d_%s" % (rnd, pid)
base = open("/tmp/agent_prompts/C13_r2.txt").read()
head, rest = base.split("  id: C13", 1)
_, tail = rest.split("YOUR TASK:", 1)
tail, _ = tail.split("(2) An earlier round", 1)
files = ", ".join(prop["anchors"]["files"])
text = head + "  id: %s\n  title: %s\n  statement: %s\n  quantified over: %s\n  code involved: %s\n\nYOUR TASK:" % (
    pid, prop["title"], prop["statement"], prop["quantifier"]["text"], files) + tail
text = text.replace("/tmp/wt2_C13", wt).replace('"property": "C13"', '"property": "%s"' % pid)
earlier = []
for d in sorted(glob.glob("/verif/seeded/%s-*" % pid)):
    m = json.load(open(d + "/meta.json"))
    earlier.append("- %s (needs: %s)" % (m["summary"], m["needs"]))
text += "(2) Earlier rounds already produced the following changes for this property. Produce THREE NEW ones that use different mechanisms, different functions or different aspects of the property than these (do not repeat or vary them):\n" + "\n".join(earlier) + "\n"
os.makedirs("/tmp/agent_prompts", exist_ok=True)
out = "/tmp/agent_prompts/%s_r%d.txt" % (pid, rnd)
open(out, "w").write(text)
subprocess.run(["git", "-C", "/repo", "worktree", "remove", "--force", wt], capture_output=True)
subprocess.run(["git", "-C", "/repo", "worktree", "add", "-q", "--detach", wt, "HEAD"], check=True)
print(out, wt, len(earlier), "earlier")
