#!/bin/sh
# tools/runall.sh [tier]  : run every registered check once, print one line each
TIER="${1:-quick}"
cd "$(dirname "$0")/.."
for p in $(python3 -c "import json; print(' '.join(c['property_id'] for c in json.load(open('MANIFEST.json'))['checks']))"); do
  S=$(date +%s)
  timeout 7200 ./check $p --tier $TIER > /tmp/runall_$p.log 2>&1; RC=$?
  E=$(( $(date +%s) - S ))
  echo "$p exit=$RC ${E}s $(grep -c '^VIOLATION' /tmp/runall_$p.log) violations, $(grep -c '^KNOWN-FINDING' /tmp/runall_$p.log) known | $(tail -1 /tmp/runall_$p.log | cut -c1-150)"
done
