#!/bin/sh
# tools/seed_matrix.sh [name-glob]  : run every seeded change through the quick check of its property (and C02 for C03 seeds),
# one line per seed in seeded/RESULTS.tsv:  seed  property  exit  #violations  units reporting
cd "$(dirname "$0")/.."
OUT=seeded/RESULTS.tsv
[ -z "$1" ] && : > $OUT
for d in seeded/${1:-*}/; do
  NAME=$(basename $d); PROP=$(python3 -c "import json;print(json.load(open('$d/meta.json'))['property'])")
  for P in $PROP $( [ "$PROP" = C03 ] && echo C02 ); do
    sh tools/try_seed.sh $NAME $P quick > /tmp/sm_$NAME.out 2>&1
    RC=$(sed -n 's/.*exit=\([0-9]*\).*/\1/p' /tmp/sm_$NAME.out | head -1)
    NV=$(grep -c '^VIOLATION' /tmp/try_$NAME.log)
    UNITS=$(grep -A1 '^VIOLATION' /tmp/try_$NAME.log | sed -n 's/.*unit=\([^ ]*\).*/\1/p' | sort -u | head -4 | tr '\n' ' ')
    printf '%s\t%s\t%s\t%s\t%s\n' "$NAME" "$P" "$RC" "$NV" "$UNITS" | tee -a $OUT
  done
done
