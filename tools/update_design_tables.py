#!/usr/bin/env python3
"""tools/update_design_tables.py: put the generated tables (tools/mktables.py) into DESIGN.md between their markers"""
import os, re, subprocess
HERE = os.path.dirname(os.path.dirname(os.path.abspath(__file__)))
out = subprocess.run(["python3", os.path.join(HERE, "tools/mktables.py")], capture_output=True, text=True).stdout
ev, seeds = out.split("\n\n", 1)
p = os.path.join(HERE, "DESIGN.md")
s = open(p).read()
def put(s, name, body):
    a, b = "<!-- BEGIN %s -->" % name, "<!-- END %s -->" % name
    block = a + "\n" + body.strip() + "\n" + b
    if a in s:
        return re.sub(re.escape(a) + r".*?" + re.escape(b), lambda m: block, s, flags=re.S)
    return s
s = put(s, "GENERATED-EVIDENCE-TABLE", ev)
s = put(s, "GENERATED-SEED-TABLE", seeds)
open(p, "w").write(s)
print("tables updated")
