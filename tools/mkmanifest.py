#!/usr/bin/env python3
"""regenerate MANIFEST.json from the table below (keeps it valid against the schema)"""
import json
import os

HERE = os.path.dirname(os.path.dirname(os.path.abspath(__file__)))
TECH = "bounded symbolic execution of the real source with z3 (symx), SMT-decided per path; counterexamples replayed on the unmodified library"

CHECKS = {
    "C15": dict(
        text="Every path of the real TLV.decode_bytes / encode_list / validate_key is explored symbolically within the bounds and each "
             "end-of-path obligation is discharged by z3: decoder totality and value-length soundness for all byte strings up to the "
             "bound (quick 10, thorough 15 bytes), canonical encoding / round trip for symbolic types and opaque contents at the boundary "
             "lengths, expected-types filter. Bounded, not a proof: longer inputs and longer item lists are outside. Also: the caller's buffer is untouched by decode_bytearray; BLE fragment reassembly through the real _pairing_char_write (2-3 pieces, any sizes).",
        note="Trusted: CPython semantics mirrored by the rope proxies (cross-checked on sampled paths against the real library), z3, the "
             "40-line reference TLV8 codec in harness/refs.py. TLV.to_string stubbed.",
        design="DESIGN.md section 5 C15"),
    "C05": dict(
        text="The real SecureHomeKitProtocol.data_received is executed symbolically on streams of F frames whose plaintext lengths "
             "(0..1024) and all cut positions are solver variables, so one run covers every segmentation and every frame-size "
             "choice within the bound (quick F<=2,R<=3; thorough up to F=4/R=4); z3 discharges 'delivered == sent, in order, once'. "
             "send_bytes is checked for every payload length against a reference accessory. Forged frames/length prefixes under an "
             "ideal AEAD. Bounded: longer streams are outside. Also: any other 16-bit length prefix, two sessions in one process, 67 frames (> 64 KiB) in one read.",
        note="Trusted: ideal AEAD model (a forged frame is rejected by the real primitive), rope proxies (model-based differential "
             "against the real library with real ChaCha20-Poly1305 on sampled paths), z3. HTTP layer stubbed (C07).",
        design="DESIGN.md section 5 C05"),
    "C07": dict(
        text="The real HttpResponse.parse and the data_received feed loop run on windows with solver-variable bounds over concrete "
             "template streams (fixed core + seeded random; HTTP/EVENT, content-length, chunked, body-less, tricky bodies): every "
             "placement of 2 (thorough also 3) cut points is covered per stream and z3 discharges 'messages == sent, in order, "
             "nothing left over'. Message content is enumerated, segmentation is decided symbolically. Also: the i-th response resolves the i-th queued request; two encrypted frames at every cut (unit of C05).",
        note="Trusted: rope proxies incl. find() as a case split over CRLF occurrences (model-based differential vs the real parser "
             "on sampled paths), z3. Futures/event sink are recorders.",
        design="DESIGN.md section 5 C07"),
    "C17": dict(
        text="encode_pdu, _write_pdu, _read_pdu (plain and under an ideal AEAD), _determine_fragment_size and the CoAP batch codec are "
             "executed symbolically with fragment size 8..512, body length, tid/iid/opcode, per-piece control/tid/status and split "
             "points as solver variables; z3 discharges reassembly == body, fragment <= size, rejection of wrong tid / missing "
             "continuation flag, i-th result <-> i-th item with error precedence. Bounded by fragment/piece/item counts. Also: a response in 60 one-byte fragments, the real CoAP request/response pipelines for read/write/subscribe/unsubscribe, CoAP read end to end (unit of C13).",
        note="Trusted: ideal AEAD for encrypted variants, rope/struct shims (model-based differential vs the real library incl. real "
             "ChaCha20), z3. bleak client is a scripted stub; lru_cache bypassed via __wrapped__.",
        design="DESIGN.md section 5 C17"),
    "C16": dict(
        text="Every TLVStruct subclass found by reflection in the four struct modules gets symbolic instances (full-width integer "
             "fields, every enum member via rotation variants, opaque bytes/str at boundary sizes 254..511 in one field at a time, "
             "nested messages, lists of 2-3 messages, packed id lists of 0..3 (thorough 6) ids, one unset field at a time); the real "
             "encode()/decode() run symbolically and z3 discharges canonical encoding and both round trips field by field. "
             "Two genuine defects are reported as KNOWN-FINDING (packed id lists, Meshcop duplicate types).",
        note="Trusted: reference canonical encoder in harness/c16.py+refs.py, struct/int shims (model-based differential vs the real "
             "library), z3. str fields ASCII; float fields unset; zero-length values outside.",
        design="DESIGN.md section 5 C16"),
    "C14": dict(
        text="The real check_convert_value runs over a solver-level fixed-point model of Decimal (exact constructor, per-operation "
             "rounding to ctx.prec digits decided by decade forks, context rounding modes): for each configuration of a grid of "
             "(format, min, max, step) and EVERY input in the stated range (all integers, or all decimals n/10^9) z3 discharges "
             "type, on-grid, nearest, tie-upward and in-range obligations - exact for integer formats, six significant digits for "
             "fractional ones. Garbage / non-finite inputs and bool spellings: concrete side check on the real function. Also: maxima that are not grid points, and Service.build_update for a value equal to / different from the stored one; two writes to one object of the library's own Characteristic class with min / max / step reassigned in between (second value = that of a fresh object).",
        note="Trusted: the Decimal model (cross-checked against the real decimal module on every sampled path by the differential), "
             "float(Decimal) as identity, z3. Binary floats with expansions longer than 9 fractional digits are outside.",
        design="DESIGN.md section 5 C14"),
    "C13": dict(
        text="format_characteristic_list + to_status_code, the hand-driven IpPairing.put_characteristics coroutine, the CoAP result "
             "mappers and CoAPPairing.put_characteristics run symbolically: the request-wide status, or the status of one reply item "
             "at any position, is an arbitrary integer in +-100000 (so 0, every defined code of either sign and unknown codes are "
             "covered by the solver), reply shapes are selectors (partial, duplicated, non-dict, id-less entries, 204 vs 207); z3 "
             "discharges the per-id outcome table and listeners told == accepted and readable; BlePairing.put_characteristics (decorated) is driven over all permission x outcome vectors of 3 writes. Also: a write refused as a whole (status, no list), CoAP read_characteristics end to end with non-readable characteristics and empty values, and the CoAP batch codec units of C17.",
        note="Trusted: stubs for connection/accessories (perms only), Enum lookup through the real enum module, z3. Formatting of "
             "'Unknown error code: n' is compared on the real library only.",
        design="DESIGN.md section 5 C13"),
    "C04": dict(
        text="For each step (setup M2/M4/M6, verify M2/M4, add/remove pairing on IP and BLE) the State byte and Error byte of the reply "
             "are solver variables over 0..255 (plus absent / empty / two-byte variants) and the other fields a symbolic subset; the "
             "reply bytes pass through the real TLV decoder as each transport applies it (with and without the 'expected' filter) into "
             "the real generators and pairing calls (BLE with its full decorator stack). z3 discharges 'never success' and the table "
             "4-5 exception class. Later steps are reached through ideal crypto (symbolic) / real crypto (replay). Also: the whole IP path post_tlv -> post -> request with HTTP 200/470/429, BLE fragments through the real _pairing_char_write at every split, BLE calls that restore subscriptions afterwards, unfiltered replies with other items first.",
        note="Trusted: ideal crypto only as environment to reach later steps, scripted transports, z3. Oracle calibration in DESIGN.md section 7.",
        design="DESIGN.md section 5 C04"),
    "C01": dict(
        text="The real get_session_keys generator (incl. resume_m1/resume_m3) is executed against an ideal-crypto (Dolev-Yao) adversary: "
             "the M2 reply is assembled from selectors over {honest, adversary's own, foreign, arbitrary, short, absent} public keys and "
             "{honest, arbitrary, truncated, replayed-from-another-exchange, adversary-encrypted with every identifier / signature / "
             "layout variant} encrypted data, arbitrary fields being symbolic bytes; z3 decides whether a reply is byte-identical to "
             "the genuine one and the check proves accepted <=> genuine, that a conformant accessory accepts M3, and that both ends "
             "derive identical Control/Event keys and session id; IP and BLE key installation checked for label, direction, counter 0. Also: M4 variants (error items incl. empty, wrong / empty / over-long State), over-long public keys, truncated resume tags, two exchanges in one process (fresh key, replay of the first M2), two pairing records with one identifier, is_secure during re-verification, CoAP key installation.",
        note="Trusted: the ideal-cryptography assumption (DESIGN.md 4.2) - real X25519/Ed25519/ChaCha20/HKDF reject every non-genuine "
             "value; sampled paths are replayed with real crypto on the real library. CoAP key installation not covered.",
        design="DESIGN.md section 5 C01"),
    "C03": dict(
        text="The real perform_pair_setup_part1/part2 generators run against an ideal-crypto accessory/adversary (ideal SRP, AEAD, "
             "HKDF, Ed25519): every subset of M2 fields, M4 proof variants (right, wrong-code accessory, arbitrary symbolic bytes, "
             "truncated, absent) and M6 variants (honest, arbitrary, truncated, wrong key label, wrong nonce, every incomplete or "
             "wrongly signed sub-TLV under the right key). Proved: data is returned iff the exchange is fully authenticated, the "
             "returned record is self-consistent, a conformant accessory accepts M3 and M5. Also: accessory identifiers in several spellings, empty State / undefined error code next to valid content, a misplaced item instead of the proof, two pairings in one process (fresh SRP value, untouched first result, replay of the first exchange, another code after an exchange with the old one), and the byte-level SRP unit of C02.",
        note="Trusted: ideal cryptography incl. ideal SRP (real SRP values are C02); sampled paths replayed with the repository's "
             "SrpServer and real Ed25519/ChaCha20/HKDF on the real library. Transport drivers not covered.",
        design="DESIGN.md section 5 C03"),
    "C06": dict(
        text="One inductive step per primitive operation of the session ciphers (IP data_received, BLE EncryptionKey/DecryptionKey, CoAP "
             "EncryptionContext encrypt/decrypt/decrypt_event/_decrypt_response) from ARBITRARY symbolic counters (0..2^48) with a message "
             "that is genuine-with-symbolic-counter or forged: z3 discharges nonce = current send counter, accept only in order / at "
             "most once, counters advance once, failed decrypt leaves them unchanged. With 'new keys start at 0' the induction covers "
             "histories of any length. The CoAP resynchronisation heuristics are reported as two KNOWN-FINDINGs. Also: CoAP post_bytes with cancelled/timed-out/failed exchanges, key lifetime across Pair-Resume, the persisted BLE watermark, and shared units: fresh exchange key (C01), IP receive/send steps (C05), BLE broadcast step (C18).",
        note="Trusted: ideal AEAD; counters as mathematical integers (no wrap); the close-connection-on-failure half needs a running loop "
             "and is not decided (the induction does not depend on it for IP/BLE).",
        design="DESIGN.md section 5 C06"),
    "C02": dict(
        text="The real SrpClient and its byte-level use in perform_pair_setup_part2 run with integers as mathematical ints, big-endian "
             "byte strings as abstract (value, width) encodings whose minimal width is a FREE integer (so every leading-zero situation "
             "of A, B, S, salt and the digests is inside one query), SHA-512 and modexp as free functions; z3 proves A, K, M1 and the "
             "accepted M2 equal the RFC 5054/HAP reference terms for every a, B, 16-byte salt, that a wrong code's proof differs and "
             "that M5 is keyed from the 64-byte K. The real arithmetic is replayed per leading-zero class from mined cases. Also: the client API in three call orders (S first and again, accessory proof checked before the own proof), a mistyped code followed by the right one with the same salt, every leading-zero class through perform_pair_setup_part2, and the M4/M6 variants of C03 (shared unit).",
        note="Trusted: hash/modexp as free functions (no-collision assumption), the 30-line reference in harness/c02.py, z3. Salts of "
             "other lengths and short B values are outside.",
        design="DESIGN.md section 5 C02"),
    "C18": dict(
        text="One step of the real BlePairing._async_notification from an ARBITRARY last-accepted state number (0..65535): the payload "
             "is genuine with symbolic nonce counter (0..70000), inner GSN and value, or sealed under another key / another "
             "advertising id, or arbitrary bytes; key / description present or not; the 100-candidate loop is fully unrolled. z3 "
             "discharges 'listeners called and state advanced iff authentic and inner GSN == nonce and s < c < s+100' and that the "
             "decoded value and id are delivered. Induction over the history gives freshness for sequences of any length. Routing "
             "by advertising id through BleController._device_detected. Also: the description restored by the real BlePairing.__init__ from the cache, and two broadcast keys used with one nonce.",
        note="Trusted: ideal 4-byte-tag AEAD (2^-32 forgery chance outside), stub accessory database, z3; sampled paths replayed with "
             "the real pure-Python ChaCha20-Poly1305 partial-tag code.",
        design="DESIGN.md section 5 C18"),
    "C19": dict(
        technique=TECH + "; part (a) has symbolic advertisement bytes and lengths, parts (b) and (c) are hand-driven / selector-built (bounded exhaustive exploration of schedules of the real coroutines)",
        text="PARTIAL: (a) HomeKitAdvertisement and HomeKitEncryptedNotification parsing for every Apple manufacturer-data byte string "
             "of length 0..24 (symbolic content, concrete id bytes) against the field-extraction spec; BleController._device_detected "
             "with the real pairing-side handlers for every such advertisement x {no pairing, pairing with cached state, pairing "
             "without cached state}: never raises, completes exactly the waiters registered for the advertised id, ignores malformed "
             "data; encrypted notifications incl. authentic ones with unknown id / short plaintext. (b) waiter half, hand-driven: the "
             "real async_find coroutines of the BLE and the mDNS controller against every schedule of at most 4 (thorough: 5) events "
             "over {next waiter starts, advertisement for id A / B, malformed advertisement, waiter k cancelled, waiter k's timeout "
             "fires} with 2 (3) waiters over 2 ids, both resume orders, wake-ups optionally delayed past the next callback: woken by "
             "the first valid advertisement for its id, AccessoryNotFoundError at the timeout, CancelledError when cancelled, no callback "
             "raises. (c) HomeKitService.from_service_info over selector-built records (address lists, key/id spelling, bare keys, numbers), "
             "mDNS records through the browser callback incl. a goodbye inside the resolve delay, the start-up cache scan with malformed PTRs. "
             "NOT decided: the aggregate Controller.async_find (asyncio.create_task/wait need a running loop), real timers.",
        note="Trusted: ideal partial-tag AEAD, IntFlag constructors as identity, recorders for BleDiscovery/cache/task creation, harness "
             "futures/timers standing in for asyncio's (state machine and Task.cancel/asyncio.timeout semantics as documented), z3. "
             "In (b) and (c) every symbolic variable is a discrete selector: the guarantee equals bounded exhaustive exploration.",
        design="DESIGN.md section 5 C19"),
    "C08": dict(
        text="PARTIAL, hand-driven: every caller is the real HomeKitConnection.request coroutine on the real InsecureHomeKitProtocol "
             "(_send_lines, data_received, HttpResponse, connection_lost, _cancel_pending_requests, _connection_lost); futures, the 30 s "
             "timer, the semaphore and the transport are loop-free stand-ins with asyncio's documented behaviour. For every schedule of "
             "at most 5 (thorough 6) events over {next caller starts, accessory answers the oldest request, accessory sends an EVENT, "
             "read all / a prefix of the pending bytes, caller k cancelled, caller k's timer fires, peer closes, loop delivers the loss, "
             "unsolicited response} with 2 (3) callers, concurrency limit 1 or more, both resume orders and wake-ups optionally delayed "
             "past the next callback: a returning caller holds the response naming its own request, the listener sees every completely "
             "delivered EVENT once and in order, failures are CancelledError (cancelled) or AccessoryDisconnectedError (timer / abandoned "
             "or lost connection) only, a timed-out or cancelled request in flight closes the transport and nothing is written to it "
             "afterwards, after the loss nobody is left waiting. NOT decided: the encrypted protocol, real sockets/timers, loop ordering "
             "beyond the modelled choices.",
        note="All symbolic variables are discrete schedule selectors (the solver decides feasibility of each selector branch; the guarantee "
             "equals bounded exhaustive exploration of these schedules of the real coroutines). Trusted: the stand-ins for asyncio "
             "Future/Task.cancel/call_at/Semaphore and the transport; the oracle is model-free (responses are labelled by request).",
        technique="bounded symbolic execution (symx, z3) of the real coroutines, hand-driven without an event loop; every symbolic variable is a schedule selector, so this is bounded exhaustive schedule exploration of the real code; counterexample schedules replayed on the unmodified library",
        design="DESIGN.md section 0.3a and 6 (C08)"),
    "C12": dict(
        text="PARTIAL, hand-driven: the real IpPairing.subscribe / unsubscribe / _update_subscriptions / connection_made / event_received, "
             "HomeKitConnection.event_received and AbstractPairing's subscription and listener code run against a recording accessory "
             "(connection.put_json) for every history of at most 4 (thorough 5) events over {subscribe S, unsubscribe S (4 id lists "
             "over 3 ids on 2 accessory ids), reconnect, reconnect cut off at its 1st/2nd request, disconnect, event with a good / "
             "two-characteristic / empty / non-JSON / non-UTF-8 body, listener added (raising or not) / removed}: after every clean "
             "(re)connection the accessory has again been asked for every subscribed id, one request per accessory id; listeners are "
             "told the connection is back; each event reaches each registered listener exactly once keyed by (aid, iid); unparsable "
             "bodies are not delivered; a raising listener neither stops the others nor propagates; nothing raises. NOT decided: "
             "events interleaved with responses and split across reads (C07/C08), per-status subscription replies (C13), BLE/CoAP.",
        note="All symbolic variables are discrete history selectors (bounded exhaustive exploration of histories of the real code). "
             "Trusted: the recording accessory behind put_json, the connected flag behind _ensure_connected.",
        technique="bounded symbolic execution (symx, z3) of the real coroutines, each running to completion under one send(None); every symbolic variable is a history selector, so this is bounded exhaustive history exploration of the real code; counterexample histories replayed on the unmodified library",
        design="DESIGN.md section 0.3a (C12)"),
    "C10": dict(
        technique=TECH + "; parts (b)-(h) are hand-driven coroutines whose symbolic variables are discrete selectors (bounded exhaustive exploration), part (a) is an SMT proof over reals lifted from the source AST",
        text="PARTIAL: (a) the back-off update expression is lifted from HomeKitConnection._reconnect's AST into z3 reals and the one-step "
             "law (next <= 60, next >= 0.75, grows until the cap, cap within 12 steps) is proved for every interval in [0.5, 60]; "
             "(b) the real _reconnect coroutine is hand-driven for K attempts (quick 3, thorough 4) over every combination of outcome "
             "selectors {refused, timeout, peer close, HTTP 4xx, wrong pairing id marking / not marking the address, bad signature, "
             "authentication error, unexpected exception, success} x host lists of 1..3 x wake-up / close-request flags, checked "
             "against the back-off law, the immediate-retry rule and the termination rule; (c) connector guards from an arbitrary "
             "flag state; (d) _get_connect_hosts over every exclusion subset and the refresh of the host list from the advertisement in the "
             "real SecureHomeKitConnection._connect_once (which addresses an attempt tries); (f) a failed set-up followed by the late "
             "connection_lost of its socket starts no second connector; (g) IpPairing._async_description_update from every flag state "
             "(never after shutdown); (e) the waiting caller, hand-driven: "
             "IpPairing._ensure_connected / ensure_connection with loop-free stand-ins for shield, asyncio.timeout and the connector "
             "task: the caller waits on a shielded future, a caller that is cancelled or times out gets CancelledError / "
             "AccessoryDisconnectedError (naming the connector's last error) and the connector is not cancelled, a connector that "
             "connects / returns unconnected / fails with an authentication error gives the caller that answer; (h) how a failed attempt ends "
             "(back-off sleep vs end of the connector), a session closed after an HTTP 4xx whose loss restarts the connector, zeroconf "
             "records reaching the pairing by every route, shutdown() marking the pairing before it awaits close(). NOT decided: "
             "single-connector under truly concurrent triggers, happy-eyeballs, wall-clock behaviour (need a running loop).",
        note="In (b)-(d) all symbolic variables are discrete selectors: the guarantee equals bounded exhaustive exploration of fault "
             "histories of the real coroutine; _connect_once, asyncio.sleep, interrupt, create_future, async_create_task are stubs.",
        design="DESIGN.md section 5 C10"),
    "C11": dict(
        technique=TECH + "; the coroutines are hand-driven and every symbolic variable is a discrete history selector (bounded exhaustive exploration of fault histories of the real code)",
        text="PARTIAL: the real secure/insecure _connect_once (from the point where the socket exists), post_tlv/post/request, the "
             "protocol's _send_lines/data_received/connection_made/connection_lost, HttpResponse, _drop_transport, close, "
             "_stop_connector and _connection_lost run against a harness-side network model for every history of K (quick 2, "
             "thorough: K=2 with all 13 and K=3 with 8 representative) connection attempts x 13 set-up outcomes, one peer close or late connection_lost of any connection made so "
             "far, and close() with the connector in each of 5 states: at most one open connection and it is the current one, none "
             "left after a failed set-up or close(), close() never raises (also on a reset socket), stops a running connector and lets no "
             "second one start meanwhile, a stale loss does not disturb the current connection; outcomes include a failing "
             "connection_made hook after a successful verify and the real get_session_keys with damaged pairing data. "
             "NOT decided: real sockets/tasks, close() racing a running attempt.",
        note="All symbolic variables are discrete selectors (bounded exhaustive exploration of fault histories of the real coroutines); "
             "fake loop/transport, scripted get_session_keys, immediate replies.",
        design="DESIGN.md section 5 C11"),
}

NOT_APPLICABLE = {
    "C09": "request bytes are produced by f-strings, str.join, str.encode and orjson.dumps - C-level operations that force concrete str, so nothing symbolic survives to the first byte; what remains is example testing",
    "C20": "data path is orjson.dumps -> open/write -> orjson/commentjson.loads; the only symbolic candidate is a crash index that must be realised at the JSON parser, i.e. crash-point enumeration",
}
PENDING = "harness not built yet in this round (see DESIGN.md section 5 for the planned solver-based check)"
ALL = ["C%02d" % i for i in range(1, 21)]


def main():
    checks = []
    for pid, c in sorted(CHECKS.items()):
        checks.append({
            "property_id": pid,
            "quick_cmd": "./check %s --tier quick" % pid,
            "thorough_cmd": "./check %s --tier thorough" % pid,
            "evidence_file": "/verif/evidence/%s.json" % pid,
            "replay_cmd_template": "./check %s --replay {path}" % pid,
            "engine": "symx",
            "level_claimed": {"category": "other", "text": c["text"], "design_ref": c["design"]},
            "level_note": c["note"],
            "technique": c.get("technique", TECH),
        })
    na = []
    for pid in ALL:
        if pid in CHECKS:
            continue
        na.append({"property_id": pid, "reason": NOT_APPLICABLE.get(pid, PENDING)})
    m = {
        "version": 1,
        "setup_cmd": "./setup.sh",
        "hooks": {"guard": "AIOHOMEKIT_VERIF", "enable": "no source hooks are needed: checks load /repo's working-tree sources into shimmed module copies",
                  "baseline_off_cmd": "cd /repo && /venv/bin/python -m pytest -q -p no:cacheprovider --timeout=900",
                  "source_commits": [], "add_only": True},
        "engines": [{"name": "symx", "path": "/verif/symx", "serves_properties": sorted(CHECKS),
                     "kind_free_text": "replay-based symbolic executor for Python source: proxy values over z3 terms, shimmed builtins, decision-prefix replay, per-path SMT obligations, model-based differential and replay against the real library"}],
        "checks": checks,
        "not_applicable": na,
        "notes": "exit codes: 0 held, 1 VIOLATION (replayed on the real library), 2 inconclusive/harness error. known_findings.json lists fixed and known findings.",
    }
    with open(os.path.join(HERE, "MANIFEST.json"), "w") as f:
        json.dump(m, f, indent=1)
    print("MANIFEST.json: %d checks, %d not applicable" % (len(checks), len(na)))


if __name__ == "__main__":
    main()
