#!/bin/sh
# tools/try_seed.sh <seeded name> <property id> [tier]  : apply the seeded patch to /repo, run the check, undo.
NAME="$1"; PROP="$2"; TIER="${3:-quick}"
cd /repo && git diff --quiet || { echo "/repo is dirty"; exit 2; }
git -C /repo apply "/verif/seeded/$NAME/patch.diff" || exit 2
cd /verif && timeout 3600 ./check "$PROP" --tier "$TIER" > "/tmp/try_$NAME.log" 2>&1; RC=$?
git -C /repo checkout -- .
echo "$NAME on $PROP/$TIER: exit=$RC  violations=$(grep -c '^VIOLATION' /tmp/try_$NAME.log)"
grep -A1 '^VIOLATION' "/tmp/try_$NAME.log" | grep -v '^--' | cut -c1-220 | head -6
grep '^INCONCLUSIVE' "/tmp/try_$NAME.log" | cut -c1-220 | head -3
exit 0
