#!/bin/sh
# tools/try_seed.sh <seeded name> <property id> [tier]
# Runs the check against a scratch worktree of /repo with the seeded patch applied (VERIF_REPO), so /repo itself and
# any background run are not disturbed.  Equivalent to: git -C /repo apply patch; ./check; git -C /repo checkout -- .
NAME="$1"; PROP="$2"; TIER="${3:-quick}"
WT=/tmp/ts_$NAME
git -C /repo worktree remove --force "$WT" >/dev/null 2>&1
git -C /repo worktree add -q --detach "$WT" HEAD || exit 2
git -C "$WT" apply "/verif/seeded/$NAME/patch.diff" || { git -C /repo worktree remove --force "$WT"; echo "patch does not apply"; exit 2; }
cd /verif && VERIF_REPO="$WT" timeout 3600 ./check "$PROP" --tier "$TIER" > "/tmp/try_$NAME.log" 2>&1; RC=$?
git -C /repo worktree remove --force "$WT" >/dev/null 2>&1
echo "$NAME on $PROP/$TIER: exit=$RC  violations=$(grep -c '^VIOLATION' /tmp/try_$NAME.log)"
grep -A1 '^VIOLATION' "/tmp/try_$NAME.log" | grep -v '^--' | cut -c1-220 | head -6
grep '^INCONCLUSIVE' "/tmp/try_$NAME.log" | cut -c1-220 | head -3
exit 0
