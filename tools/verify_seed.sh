#!/bin/sh
# tools/verify_seed.sh <mutation dir with patch.diff demo.py meta.json> <dest name under /verif/seeded>
# confirms in a scratch worktree: demo passes on clean tree, patch applies, test suite passes with it, demo fails with it.
set -u
SRC="$1"; NAME="$2"
WT=/tmp/vs_$$
git -C /repo worktree add -q --detach "$WT" HEAD || exit 2
cleanup() { git -C /repo worktree remove --force "$WT" >/dev/null 2>&1; }
trap cleanup EXIT
cd "$WT"
# demos may locate the library relative to their own position (<worktree>/_mut/mN/demo.py): run a copy from inside $WT
mkdir -p "$WT/_mut/m0" && cp "$SRC/demo.py" "$WT/_mut/m0/demo.py"
PYTHONPATH="$WT" timeout 300 /venv/bin/python "$WT/_mut/m0/demo.py" >/tmp/vs_clean.log 2>&1; C=$?
git apply "$SRC/patch.diff" || git apply -3 "$SRC/patch.diff" || { echo "patch does not apply"; exit 2; }
PYTHONPATH="$WT" timeout 300 /venv/bin/python "$WT/_mut/m0/demo.py" >/tmp/vs_mut.log 2>&1; M=$?
unshare -n sh -c "ip link set lo up; PYTHONPATH=$WT timeout 1200 /venv/bin/python -m pytest -q -p no:cacheprovider --timeout=900 -x" >/tmp/vs_tests.log 2>&1; T=$?
SUMMARY=$(tail -1 /tmp/vs_tests.log)
echo "demo clean exit=$C  demo mutated exit=$M  tests exit=$T ($SUMMARY)"
if [ "$C" = 0 ] && [ "$M" = 1 ] && [ "$T" = 0 ]; then
  mkdir -p "/verif/seeded/$NAME"
  cp "$SRC/patch.diff" "$SRC/demo.py" "$SRC/meta.json" "/verif/seeded/$NAME/"
  echo "KEPT as /verif/seeded/$NAME"
else
  echo "REJECTED"; tail -5 /tmp/vs_mut.log; exit 1
fi
