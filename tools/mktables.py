#!/usr/bin/env python3
"""tools/mktables.py  -> prints (a) the measured quick-tier table from evidence/*.json and (b) the seeded-change table from
seeded/*/meta.json + seeded/RESULTS.tsv, as markdown (pasted into DESIGN.md section 0)"""
import glob, json, os
HERE = os.path.dirname(os.path.dirname(os.path.abspath(__file__)))
print("| id | tier | units | paths | obligations (discharged) | queries | solver s | wall s | violations / known |")
print("|---|---|---|---|---|---|---|---|---|")
for f in sorted(glob.glob(HERE + "/evidence/C*.json")):
    e = json.load(open(f))
    c = e["coverage"]
    k = c.get("counts", c)
    print("| %s | %s | %s | %s | %s (%s) | %s | %s | %s | %s / %s |" % (
        e["property_id"], e["tier"], len(c.get("units", [])), k.get("evaluations", "?"), k.get("obligations", "?"), k.get("discharged", "?"),
        k.get("queries", "?"), k.get("solver_s", "?"), e.get("wall_s", "?"), e.get("violations", "?"), len(c.get("known_findings_reported", []))))
print()
res = {}
p = HERE + "/seeded/RESULTS.tsv"
if os.path.exists(p):
    for line in open(p):
        parts = line.rstrip("\n").split("\t")
        if len(parts) >= 5:
            res.setdefault(parts[0], []).append((parts[1], parts[2], parts[3], parts[4].strip()))
print("| seed | change | result of the quick check(s) |")
print("|---|---|---|")
for d in sorted(glob.glob(HERE + "/seeded/C*")):
    name = os.path.basename(d)
    m = json.load(open(d + "/meta.json"))
    out = []
    for prop, rc, nv, units in res.get(name, []):
        if prop != m["property"] and rc != "1":
            continue
        out.append("%s: %s%s" % (prop, {"1": "caught", "0": "MISSED", "2": "inconclusive (exit 2)"}.get(rc, "exit " + rc), (" by `%s`" % units.split(" ")[0]) if rc == "1" and units else ""))
    s = m["summary"].replace("|", "/").replace("\n", " ")
    print("| %s | %s | %s |" % (name, s[:230] + ("…" if len(s) > 230 else ""), "; ".join(out) or "not run"))
